#!/bin/bash
# Determinism self-test: the same case indices of every property are executed in separate processes
# at GOMAXPROCS 1, 2 and 16 (twice at 2); the per-case digests (schedule hash, scheduler steps, tape
# bytes, seam call counts, fault firings) must be identical. usage: tools/determinism.sh [runs-per-property]
cd "$(dirname "$(readlink -f "$0")")/.." || exit 2
N=${1:-40}
./check --build || exit 2
B=${VERIF_WORK:-$PWD}/build
mkdir -p $B/det; bad=0
RELAX=$(jq -r '[.findings[]|select(.status=="open")|.relaxation]|join(",")' known_findings.json)
for p in $(jq -r '.checks[].property_id' MANIFEST.json); do
  i=0
  for gmp in 1 2 2 16; do
    i=$((i+1))
    GOMAXPROCS=$gmp VERIF_DET=1 VERIF_MODE=worker VERIF_PROP=$p VERIF_SEED=${VERIF_SEED:-5} VERIF_WORKER=0 VERIF_NW=1 VERIF_RUNS=$N VERIF_BUDGET_S=600 \
      VERIF_RELAX=$RELAX VERIF_OUT=$B/det/$p.$i.jsonl VERIF_ROOT=$PWD VERIF_WORK=${VERIF_WORK:-$PWD} \
      $B/sim.test -test.run '^TestVerif$' -test.timeout 0 2>/dev/null | grep '^DET' > $B/det/$p.$i.det &
  done
  wait
  n=$(wc -l < $B/det/$p.1.det)
  if cmp -s $B/det/$p.1.det $B/det/$p.2.det && cmp -s $B/det/$p.1.det $B/det/$p.3.det && cmp -s $B/det/$p.1.det $B/det/$p.4.det && [ "$n" -gt 0 ]; then
    echo "$p deterministic over $n cases x 4 processes"
  else
    echo "$p NOT deterministic ($n cases):"; diff $B/det/$p.1.det $B/det/$p.4.det | head -5; diff $B/det/$p.1.det $B/det/$p.2.det | head -5; bad=1
  fi
done
exit $bad
