# executed by mkfindings.py (uses add, cfg, D and the O_* constants)
add("F01","C10","fixed","hang","RemoveAll of a missing path returned nil but left the drive locked: the next write blocked forever (every error return between GetWriter and CloseWriter leaked the lock)",
    ops=[{"k":"removeall","p":"/b"}], params={"enumerate":0}, commit="release the drive when a write operation fails")
add("F02","C10","fixed","hang","a failing open of the drive (for writing or reading) left the drive lock held",
    ops=[{"k":"mkdir","p":"/d","m":0o755}], faults=[{"seam":"drive.openfile","k":1}], params={"enumerate":0}, commit="release the drive lock when opening the drive fails")
add("F03","C10","fixed","crash","an error in the restore goroutine behind File.Read/Seek called panic and killed the process (here: reading a never-written file under gzip)",
    ops=[{"k":"writefile","p":"/a","d":D(0,1)}], cfg_=cfg(comp="gzip"), params={"enumerate":0}, commit="report restore errors to the reader instead of panicking")
add("F24","C02","fixed","unexpected-failure:rename","after an index rebuild Remove/Rename failed with 'Format specifies USTAR; and only PAX supports PAXRecords'",
    ops=[{"k":"mkdir","p":"/b","m":0o755},{"k":"rebuild"},{"k":"rename","p":"/b","q":"/c"},{"k":"remove","p":"/c"}], commit="entries can be moved and deleted after an index rebuild")
add("F25","C10","fixed","hang","after a failed drive write left index and tape out of step, reading an entry whose position holds a non-regular record blocked forever (restore ended without closing the pipe)",
    ops=[{"k":"mkdir","p":"/d","m":0o755},{"k":"writefile","p":"/a","d":D(0,1)}], faults=[{"seam":"drive.write","k":4}], params={"enumerate":0}, commit="a read never waits forever")
add("F39","C16","fixed","opened-differs-from-scratch-rebuild",
    "(was KF3) opening over an existing index that reflects only a prefix of the tape (stale index, e.g. after a crash between the tape append and the index update) never catches up: Initialize returns the cached root and the filesystem shows the stale prefix state, not what a rebuild of the tape shows",
    ops=[{"k":"mkdir","p":"/d","m":0o755}], params={"enumerate":0,"cut":-1,"idx":0}, commit="opening a filesystem catches its index up with the tape")
def addfile(id,prop,status,oracle,what,relax=None,commit=None,also=None):
    fn=f"findings/{id}.json"
    c=json.load(open("/verif/"+fn))
    c["expect"]={"property":prop,"oracle":oracle,"detail":what,"step":0}
    json.dump(c,open("/verif/"+fn,"w"),indent=1)
    e={"id":id,"property":prop,"status":status,"oracle":oracle,"what":what,"replay":fn}
    if relax: e["relaxation"]=relax
    if commit: e["commit"]=resolve(commit)
    if also: e["also"]=also
    F.append(e)
import shutil
if os.path.exists("/verif/findings/KF2.json"): shutil.move("/verif/findings/KF2.json","/verif/findings/F34.json")
addfile("F34","C16","fixed","open-appends-although-root-exists",
    "(was KF2) opening (index absent) a tape whose last record is cut inside its content: the rebuild returned 'unexpected EOF', Initialize treated that like an empty tape, appended a new root record although a root existed and left an index that held only that root",
    commit="opening a tape with an incomplete last record no longer adds a second root")
addfile("KF4","C16","open","write-after-open-fails",
    "after opening a tape whose tail is cut off the 512-byte grid (or inside a record), later writes are appended directly behind the torn bytes: they are never indexed (the call fails with not-exist or the entry is lost on rebuild)",
    relax="torn-tail-append")
add("F26","C03","fixed","read-fails","pgp + parallelbzip2: content larger than one bzip2 block could not be read back (OpenPGP body read again after EOF -> 'MDC hash mismatch')",
    ops=[{"k":"content","p":"/f0","d":D(150038,7,"rand")}], cfg_=cfg(comp="parallelbzip2",enc="pgp"), params={"chunk":0,"sleep":0}, commit="PGP-encrypted content larger than one bzip2 block")
add("F27","C08","fixed","accepted-header-not-signed","PGP: a record whose STFS.Signature is garbage (valid base64 that is no signature, not base64 at all, a non-signature packet) had its forged embedded header accepted by the index rebuild",
    ops=[{"k":"mkdir","p":"/d","m":0o755},{"k":"writefile","p":"/d/f","d":D(10,1)}], cfg_=cfg(sig="pgp"), params={"enumerate":0,"a0":0,"a1":0,"a2":0}, sparams={"alt":"garbage-sig"}, commit="PGP header verification rejects undecodable")
add("KF5","C01","open","root-name-differs",
    "the root directory reports its own name as \"/\" on the instance that created the tape and as \".\" after the index has been rebuilt from the tape (the rebuild stores the root under the sanitized name \"\")",
    ops=[{"k":"mkdir","p":"/a","m":0o755}], relax="root-name")
add("F28","C18","fixed","sign-fails","a PGP pair generated with an empty password parsed but could neither sign ('signing key is encrypted') nor decrypt ('incorrect key')",
    cfg_=PLAIN, params={"pw":0,"d0":0,"d1":1,"len":100}, sparams={"kind":"sig:pgp"}, commit="PGP keys generated with an empty password")
addfile("KF6","C11","open","hang",
    "a handle that has been read only partially keeps the drive and the read-side operation lock (its restore goroutine is parked in the pipe) until it is closed: any writing call of another caller then blocks while holding the filesystem lock, and the reader's own Close blocks on that lock - the whole instance deadlocks",
    relax="nopartialreads", also=["C01","C02","C05","C12","C13","C14","C15","C16"])
addfile("F29","C11","fixed","not-linearizable",
    "a Chmod by another caller between Create and Close of a written handle was undone by the Close (the handle archived its cached attributes)",
    commit="closing a written file archives it under its current state")
addfile("F30","C11","fixed","not-linearizable",
    "same defect, second schedule: Chmod of a file another caller has open for writing is lost when that caller closes it",
    commit="closing a written file archives it under its current state")
add("F31","C02","fixed","tree-differs-after:h.close","closing a written handle whose entry had been removed meanwhile resurrected the entry",
    ops=[{"k":"create","p":"/t","h":1},{"k":"h.write","h":1,"d":D(20,1)},{"k":"remove","p":"/t"},{"k":"h.close","h":1},{"k":"stat","p":"/t"}],
    commit="closing a written file archives it under its current state")
add("F32","C01","fixed","rebuild-differs","closing a written handle whose entry had been renamed away appended a record no index row matched; the next write was then indexed at that stale record's position (a new empty file showed the other file's bytes until the index was rebuilt)",
    ops=[{"k":"create","p":"/t","h":1},{"k":"h.write","h":1,"d":D(3,1)},{"k":"rename","p":"/t","q":"/u"},{"k":"h.close","h":1},{"k":"writefile","p":"/c7","d":D(0,2)}],
    commit="closing a written file archives it under its current state")
addfile("KF7","C05","open","rejected-call-appends",
    "renaming a directory that is (an ancestor of) the target of a symlink: the symlink row shares its name with the target's row, the second move record matches no row any more, the index falls one record behind the tape and every later write appends its record and then fails with 'tar header missing' (the link path itself is not rewritten either)",
    relax="symlink-rename", also=["C01"])
add("F33","C06","fixed","torn-entry-returns-wrong-data","tape cut exactly where the content of a zstandard-compressed content update starts: the header was indexed, and restoring the entry returned an empty file WITHOUT an error (zstandard treats the empty stream as valid; nothing compared the restored length with the recorded size)",
    ops=[{"k":"writefile","p":"/b","d":D(0,1)},{"k":"chtimes","p":"/b","n":394800504,"t1":1016816504,"t2":1140504761},{"k":"writefile","p":"/b","d":D(1,2,"rand")},{"k":"writefile","p":"/b","d":D(1,3)}],
    cfg_=cfg(comp="zstandard"), params={"cut":10240,"enumerate":0}, commit="restoring a record that was cut short reports an error")
addfile("F35","C11","fixed","data-race",
    "two goroutines using one open file: Sync/Close replaced the file's info struct under the lock while Write/Read/Truncate/... looked at f.info.IsDir() before taking it (race detector: write in syncWithoutLocking, read in File.Write); found when the free-running -race mode started to honour shared handles",
    commit="a file shared by several goroutines no longer has a data race")
add("F36","C08","fixed","read-content-not-signed","the size field of the (unsigned) outer tar header of a content record set to 0 with the tar checksum recomputed, pgp encryption: the PGP decryptor fails with a bare io.EOF, File.Read's restore goroutine handed that to the pipe with CloseWithError(io.EOF) = regular end of stream: the reader got an empty file without error instead of the signed content",
    ops=[{"k":"mkdir","p":"/d","m":0o755},{"k":"writefile","p":"/d/f","d":D(1,1)}], cfg_=cfg(enc="pgp",sig="minisign"), params={"enumerate":0,"a0":3,"a1":0,"a2":0}, sparams={"alt":"outer-size"}, commit="a restore that fails with io.EOF is not a clean end of file")
addfile("F37","C14","fixed","io-contract:h.readat",
    "Read, ReadAt, Write, WriteAt and WriteString returned the count -1 together with every error (permission, is-a-directory, invalid offset, failed restore): io.Reader/io.Writer require 0 <= n <= len(p); io.ReadAll, bytes.Buffer.ReadFrom (afero.ReadFile) and bufio panic on a negative count, so a failed read crashed standard consumers instead of handing them the error. The harness had tolerated n=-1 until a sub-agent's demonstration tripped over the panic",
    commit="report a count of 0 together with an error", also=["C02","C06"])
addfile("F38","C03","fixed","failed-write-corrupts-content",
    "one transient drive read error while the first Write on a handle restores the file's existing content: Write returns the error, but the half-restored (here: empty) write buffer stayed attached to the handle and Close archived it - the file's 13 bytes were replaced by an empty file although the only call that touched it had failed (first noticed as a side remark in a sub-agent's report)",
    commit="a write whose restore of the existing content fails no longer leaves")
addfile("KF8","C03","open","content-never-written",
    "a write call that fails after part of its record has reached the tape (drive write error, or a write-cache read error during the copy pass) leaves that torn record where it is; the next successful call appends its record directly behind it, so the torn header's announced content covers the head of the next record: the entry then reads those bytes (here the single byte '/') without any error - same design gap as KF4 (nothing makes a torn record harmless before appending), reached inside one session",
    relax="torn-record-append")
addfile("F40","C17","fixed","member-size-after-member-calls",
    "Chmod/Chown/Chtimes of an original member of a foreign tar archive: the metadata-only record has tar size 0 and the member's header carries no STFS.UncompressedSize record to inherit, so the index held size 0 afterwards (Stat reports an empty file, the next append drops the content); noticed by a sub-agent while probing, then reproduced by C17 once it compared reported sizes",
    commit="changing the attributes of an entry that was not written by STFS keeps its size")
addfile("F41","C03","fixed","archive-fails",
    "batched Operations.Archive from a source that implements io.WriterTo (bytes.Reader, strings.Reader, bytes.Buffer) under PGP encryption + a signature format + no compression, content larger than 32 KiB: the size pass reads through the signer in 32 KiB chunks, the write pass handed the source over in one Write; the OpenPGP stream length depends on the chunking: 'archive/tar: missed writing 2 bytes' / 'write too long' and a torn record (side remark of a sub-agent, reproduced once C03's sources implemented io.WriterTo)",
    commit="archiving from a source that implements io.WriterTo no longer fails")
addfile("F42","C11","fixed","hang",
    "parallelgzip: two callers read /t (one record) with a buffer of exactly its size and keep their handles open while a third calls Stat: pgzip's WriterTo ends with an empty write, an empty write to the read path's pipe parks the restore (drive + read lock held) although every byte has been delivered; the next call that needs the drive deadlocks the instance (found when the readers template started to read exact sizes, prompted by seeded change S-C11g)",
    commit="a file that has been read to its last byte no longer keeps the drive")
addfile("F43","C17","fixed","unexpected-entry-after-member-calls",
    "foreign archive written with absolute member names under a named top directory (tar -P): its directories are indexed with a trailing slash; RemoveAll of such a directory returned nil and removed nothing (Delete looked the exact name up only, RemoveAll treats 'no rows' like a missing path) - side remark of a sub-agent, reproduced once C17 generated that root style",
    commit="RemoveAll removes directories that are indexed with a trailing slash")
