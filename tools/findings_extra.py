# executed by mkfindings.py (uses add, cfg, D and the O_* constants)
add("F01","C10","fixed","hang","RemoveAll of a missing path returned nil but left the drive locked: the next write blocked forever (every error return between GetWriter and CloseWriter leaked the lock)",
    ops=[{"k":"removeall","p":"/b"}], params={"enumerate":0}, commit="24afff3")
add("F02","C10","fixed","hang","a failing open of the drive (for writing or reading) left the drive lock held",
    ops=[{"k":"mkdir","p":"/d","m":0o755}], faults=[{"seam":"drive.openfile","k":1}], params={"enumerate":0}, commit="60d1b02")
add("F03","C10","fixed","crash","an error in the restore goroutine behind File.Read/Seek called panic and killed the process (here: reading a never-written file under gzip)",
    ops=[{"k":"writefile","p":"/a","d":D(0,1)}], cfg_=cfg(comp="gzip"), params={"enumerate":0}, commit="08ef6ff")
add("F24","C02","fixed","unexpected-failure:rename","after an index rebuild Remove/Rename failed with 'Format specifies USTAR; and only PAX supports PAXRecords'",
    ops=[{"k":"mkdir","p":"/b","m":0o755},{"k":"rebuild"},{"k":"rename","p":"/b","q":"/c"},{"k":"remove","p":"/c"}], commit="63c86e2")
add("F25","C10","fixed","hang","after a failed drive write left index and tape out of step, reading an entry whose position holds a non-regular record blocked forever (restore ended without closing the pipe)",
    ops=[{"k":"mkdir","p":"/d","m":0o755},{"k":"writefile","p":"/a","d":D(0,1)}], faults=[{"seam":"drive.write","k":4}], params={"enumerate":0}, commit="3ec4cde")
