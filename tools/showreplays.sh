#!/bin/bash
# usage: tools/showreplays.sh C14   - print minimised replays of a property
for f in /verif/replays/$1-*.json; do case $f in *raw*) continue;; esac; python3 - "$f" <<'PY'
import json,sys
c=json.load(open(sys.argv[1]))
print(sys.argv[1], c['cfg'], c['expect']['oracle'], c['expect']['detail'][:300])
for o in c.get('ops',[]): print('   ',{k:v for k,v in o.items() if k!='d'}, ('len=%d'%o['d']['len']) if 'd' in o else '')
for i,p in enumerate(c.get('progs',[])):
    print('  prog',i)
    for o in p: print('     ',{k:v for k,v in o.items() if k!='d'}, ('len=%d'%o['d']['len']) if 'd' in o else '')
if c.get('faults'): print('   faults',c['faults'])
PY
done
