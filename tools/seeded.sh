#!/bin/bash
# usage: tools/seeded.sh extract <seeded-id> <agent-worktree>   - store patch.diff + demo_mut under /verif/seeded/<id>/
#        tools/seeded.sh run <seeded-id> <property> [more properties...]
#   run: fresh scratch worktree of /repo HEAD + patch.diff; confirms (compiles, baseline subset unless SKIP_BASELINE=1,
#   demonstration fails with / passes without the change), runs the named checks (TIER=quick|thorough) against it,
#   writes run.json, removes the worktree. /repo itself is never touched.
set -u
MODE=$1; ID=$2; shift 2
export GOFLAGS=-mod=mod GOPROXY=off GOSUMDB=off
D=/verif/seeded/$ID; mkdir -p $D
if [ "$MODE" = extract ]; then
  WT=$1
  git -C $WT diff -- pkg internal > $D/patch.diff
  [ -s $D/patch.diff ] || { echo "no change in $WT"; exit 2; }
  rm -rf $D/demo_mut; cp -r $WT/demo_mut $D/demo_mut
  echo "stored $(wc -l < $D/patch.diff) patch lines, demo: $(ls $D/demo_mut | tr '\n' ' ')"
  exit 0
fi
PROPS="$@"
WT=/tmp/seedwt-$ID
git -C /repo worktree remove --force $WT 2>/dev/null; rm -rf $WT
git -C /repo worktree add -q $WT HEAD || exit 2
trap 'git -C /repo worktree remove --force $WT 2>/dev/null; rm -rf $WT /tmp/seedwork-$ID' EXIT
cd $WT || exit 2
cp -r $D/demo_mut demo_mut
demo() { if ls demo_mut/*_test.go >/dev/null 2>&1; then timeout 600 go test -count=1 ./demo_mut/ ; else timeout 600 go run ./demo_mut ; fi; }
demo > $D/demo_without.log 2>&1; without=$?
git apply $D/patch.diff || { echo "PATCH DOES NOT APPLY to /repo HEAD"; exit 2; }
go build ./... || { echo "DOES NOT COMPILE"; exit 2; }
demo > $D/demo_with.log 2>&1; with=$?
echo "demo: with change exit=$with, without exit=$without"
base="skipped"
if [ "${SKIP_BASELINE:-}" = "" ]; then
  mkdir -p $WT/.tmp   # private temp dir: the test suite leaves /tmp/stfs-test-* behind and other runs share /tmp
  TMPDIR=$WT/.tmp go test -mod=mod -vet=off -count=1 -timeout 25m -run 'TestFile_Name$|TestFileInfo|TestNewFileInfo' ./pkg/fs/ > $D/baseline.log 2>&1; base=$?
  rm -rf $WT/.tmp
  echo "baseline subset exit=$base"
fi
res="{}"
for p in $PROPS; do
  s=$(date +%s)
  (cd /verif && VERIF_REPO=$WT VERIF_WORK=/tmp/seedwork-$ID ./check $p ${TIER:-quick}) > $D/check_$p.log 2>&1; rc=$?
  first=$(grep -m1 '^violation\|^regression\|^data race' $D/check_$p.log | cut -c1-300)
  echo "check $p exit=$rc $(($(date +%s)-s))s :: $first"
  res=$(echo "$res" | jq --arg p $p --argjson rc $rc --arg f "$first" '. + {($p): {exit: $rc, first: $f}}')
done
jq -n --arg id $ID --argjson with $with --argjson without $without --arg base "$base" --argjson checks "$res" --arg head "$(git -C /repo rev-parse --short HEAD)" --arg tier "${TIER:-quick}" \
  '{id:$id, repo_head:$head, tier:$tier, demo_exit_with_change:$with, demo_exit_without_change:$without, baseline_subset_exit:$base, checks:$checks}' > $D/run.json
jq -c . $D/run.json
