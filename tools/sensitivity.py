#!/usr/bin/env python3
"""Sensitivity self-test: deliberate property-breaking edits, each applied to a scratch worktree of
/repo (never to /repo itself), must be caught by the quick tier of the named check.
usage: tools/sensitivity.py [id ...]        results -> /verif/selftest/sensitivity.json"""
import json, os, subprocess, sys, time, shutil

M = [
 # id, property, file, old, new, what
 ("M01","C05","pkg/tape/write.go","f, err = os.OpenFile(drive, os.O_APPEND|os.O_WRONLY|os.O_CREATE, 0600)","f, err = os.OpenFile(drive, os.O_WRONLY|os.O_CREATE, 0600)","drop O_APPEND on the regular-file drive"),
 ("M02","C02","pkg/persisters/metadata.go",'''	hdr, err := models.Headers(
		qm.Where(models.HeaderColumns.Name+" = ?", name),
		qm.Where(models.HeaderColumns.Deleted+" != 1"),
	).One(ctx, p.sqlite.DB)
	if err != nil {
		return nil, err
	}

	return converters.DBHeaderToConfigHeader(hdr), nil
}

func (p *MetadataPersister) GetHeaderByLinkname''','''	hdr, err := models.Headers(
		qm.Where(models.HeaderColumns.Name+" = ?", name),
	).One(ctx, p.sqlite.DB)
	if err != nil {
		return nil, err
	}

	return converters.DBHeaderToConfigHeader(hdr), nil
}

func (p *MetadataPersister) GetHeaderByLinkname''',"GetHeader no longer filters tombstones"),
 #equivalent through the filesystem API (a rebuild always starts from an empty index): ("M03","C01","pkg/recovery/index.go","	if overwrite {\n		if err := metadata.Metadata.PurgeAllHeaders","	if overwrite && record != 0 {\n		if err := metadata.Metadata.PurgeAllHeaders","overwrite rebuild does not purge the index"),
 ("M04","C04","pkg/recovery/index.go","h, err := converters.TarHeaderToDBHeader(oldHdr.Record, record, oldHdr.Block, block, hdr)","_ = oldHdr.Record\n\t\t\t\t\th, err := converters.TarHeaderToDBHeader(record, record, block, block, hdr)","metadata-only update takes the new record position"),
 ("M05","C09","pkg/operations/move.go","		if err := encryption.EncryptHeader(hdr, o.pipes.Encryption, o.crypto.Recipient); err != nil {\n			return err\n		}\n","		_ = encryption.EncryptHeader\n","move records are not encrypted"),
 ("M06","C08","pkg/signature/verify.go","		if minisign.Verify(recipient, []byte(src), decodedSignature) {\n			return nil\n		}\n\n		return config.ErrSignatureInvalid","		minisign.Verify(recipient, []byte(src), decodedSignature)\n\n		return nil","minisign header verification result ignored"),
 ("M07","C15","pkg/fs/filesystem.go",'''		"mode": mode,
	})

	if f.readOnly {
		return os.ErrPermission
	}
''','''		"mode": mode,
	})
''',"Chmod lost its read-only guard"),
 ("M08","C11","pkg/fs/filesystem.go",'''	name = cleanName(name)

	f.ioLock.Lock()
	defer f.ioLock.Unlock()

	if parent, err := inventory.Stat(
		f.metadata,

		filepath.Dir(name),
		false,

		f.onHeader,
	); err != nil {
		if err == sql.ErrNoRows {
			return os.ErrNotExist
		}

		return err
	} else if parent.Typeflag != tar.TypeDir {
		return config.ErrIsFile
	}

	if hdr, err := inventory.Stat(''','''	name = cleanName(name)

	if parent, err := inventory.Stat(
		f.metadata,

		filepath.Dir(name),
		false,

		f.onHeader,
	); err != nil {
		if err == sql.ErrNoRows {
			return os.ErrNotExist
		}

		return err
	} else if parent.Typeflag != tar.TypeDir {
		return config.ErrIsFile
	}

	if hdr, err := inventory.Stat(''',"Mkdir no longer takes the filesystem lock"),
 ("M09","C10","pkg/operations/delete.go","	writerOpen := true\n","	writerOpen := false\n","Delete does not release the drive on its error paths"),
 ("M10","C03","pkg/recovery/fetch.go","		if hdr.Size == 0 {\n			return dstFile.Close()","		if hdr.Size <= 1 {\n			return dstFile.Close()","one-byte records restore as empty"),
 ("M11","C07","pkg/persisters/metadata.go","	if newName != oldName {\n		if _, err := queries.Raw(","	if false {\n		if _, err := queries.Raw(","MoveHeader no longer replaces the row under the new name"),
 ("M12","C12","pkg/persisters/metadata.go",'qm.Where("substr("+models.HeaderColumns.Name+", 1, length(?)) = ?", prefix, prefix),','qm.Where(models.HeaderColumns.Name+" like ?", prefix+"%"),',"GetHeaderChildren uses LIKE again"),
 ("M13","C13","pkg/persisters/metadata.go","	return outhdrs[:limit-1], nil","	return outhdrs[:limit], nil","count-limited listing returns one entry too many"),
 ("M14","C14","pkg/fs/file.go","		dst = f.info.Size() + offset","		dst = f.info.Size() - offset","SeekEnd subtracts the offset in read mode"),
 #not reachable under C17's precondition (an archive that contains an entry for its top directory is stored with root "", the './' branch serves archives without one): ("M16","C17","pkg/persisters/metadata.go",'return "./" + ...','return ...',"'./' root style loses its prefix"),
 ("M16b","C17","pkg/cache/filesystem.go","		return afero.NewBasePathFs(base, root), nil\n	default:","		return base, nil\n	default:","the documented composition no longer maps a named top directory to the root"),
 ("M17","C18","pkg/utility/keygen.go",'		if password != "" {\n			passwordRecipient, err := age.NewScryptRecipient(password)','		if len(password) > 3 {\n			passwordRecipient, err := age.NewScryptRecipient(password)',"short passwords are not applied to age keys"),
 #equivalent for the listed properties (re-indexing a rebuilt index is idempotent): ("M18","C16","pkg/fs/filesystem.go","	existingRoot, err := f.metadata.Metadata.GetRootPath(context.Background())\n	if err == config.ErrNoRootDirectory {","	existingRoot, err := f.metadata.Metadata.GetRootPath(context.Background())\n	if err == config.ErrNoRootDirectory || existingRoot == \"\" {","a rebuilt index (root stored as \"\") is rebuilt and re-rooted on every open"),
 #equivalent for C06 (a damaged header at the TAIL ends indexing either way): ("M19","C06","pkg/recovery/index.go","						if err == io.EOF {\n							// EOF\n							break\n						}\n\n						continue","						if err == io.EOF {\n							// EOF\n							break\n						}\n\n						return err","indexer gives up instead of resynchronising after a damaged header"),
 ("M20","C01","pkg/operations/update.go","			hdrToAppend := *hdr\n			hdrs = append(hdrs, &hdrToAppend)\n\n			if err := signature.SignHeader(hdr, writer.DriveIsRegular, o.pipes.Signature, o.crypto.Identity); err != nil {\n				return []*tar.Header{}, err\n			}\n\n			if err := encryption.EncryptHeader(hdr, o.pipes.Encryption, o.crypto.Recipient); err != nil {\n				return []*tar.Header{}, err\n			}\n\n			if err := tw.WriteHeader(hdr); err != nil {\n				return []*tar.Header{}, err\n			}\n\n			dirty = true\n\n			if !file.Info.Mode().IsRegular()","			hdrToAppend := *hdr\n			hdrs = append(hdrs, &hdrToAppend)\n			hdr.Gid = 0\n\n			if err := signature.SignHeader(hdr, writer.DriveIsRegular, o.pipes.Signature, o.crypto.Identity); err != nil {\n				return []*tar.Header{}, err\n			}\n\n			if err := encryption.EncryptHeader(hdr, o.pipes.Encryption, o.crypto.Recipient); err != nil {\n				return []*tar.Header{}, err\n			}\n\n			if err := tw.WriteHeader(hdr); err != nil {\n				return []*tar.Header{}, err\n			}\n\n			dirty = true\n\n			if !file.Info.Mode().IsRegular()","the header written to tape by a content update differs (gid) from the in-memory header that is indexed"),
 #unreachable through the filesystem (File.Truncate grows by writing zeros and calls the cache's Truncate only to shrink): ("M21","C14","pkg/cache/write.go","	if grow := int(size) - f.Buff.Len(); grow > 0 {","	if grow := int(size) - f.Buff.Len(); grow > 1 {","in-memory cache: Truncate that grows a file by exactly one byte does nothing"),
 ("M22","C01","pkg/persisters/metadata.go","as location from %v order by location desc limit 1`,","as location from %v order by lastknownrecord desc limit 1`,","last indexed position: ties inside one record broken arbitrarily"),
 #equivalent (the root is never a tombstone and sorts first among rows of equal depth): ("M23","C17","pkg/persisters/metadata.go",'"/", ""))) as depth, name from %v where %v != 1`,','"/", ""))) as depth, name from %v where %v != 2`,',"root inferred from tombstones too"),
 ("M24","C03","pkg/compression/compress.go","			l = lz4.Level9\n","			l = lz4.Level9\n			return nil, config.ErrCompressionLevelUnsupported\n","lz4 at the smallest level is refused"),
 ("M25","C10","pkg/tape/manager.go","		r, rr, err := OpenTapeReadOnly(m.drive)\n		if err != nil {\n			m.physicalLock.Unlock()\n","		r, rr, err := OpenTapeReadOnly(m.drive)\n		if err != nil {\n","drive lock leaked when opening the drive for reading fails"),
 ("M26","C04","pkg/operations/archive.go","			hdr.Size = int64(fileSizeCounter.BytesRead)\n\n			hdr.Name, err = suffix.AddSuffix(hdr.Name, o.pipes.Compression, o.pipes.Encryption)","			hdr.Size = int64(fileSizeCounter.BytesRead)\n			if hdr.Size%512 == 0 {\n				hdr.Size++\n			}\n\n			hdr.Name, err = suffix.AddSuffix(hdr.Name, o.pipes.Compression, o.pipes.Encryption)","archive: encoded sizes that are a multiple of 512 are announced one byte too long"),
 ("M27","C02","pkg/operations/restore.go","	src := strings.TrimSuffix(from, \"/\")\n","	src := strings.TrimRight(from, \"/.\")\n","restore: trailing dots of the source name are trimmed too"),
 ("M28","C02","internal/suffix/remove.go","		name = strings.TrimSuffix(name, CompressionFormatZStandardSuffix)","		name = strings.TrimRight(name, CompressionFormatZStandardSuffix)","zstandard suffix removed as a cut-set"),
 ("M29","C05","internal/tarext/write.go","		if *dirty {\n			if err := tw.Close(); err != nil {","		if *dirty || !isRegular {\n			if err := tw.Flush(); err != nil {","regular-file drives: the tar trailer is replaced by a flush (no end-of-archive blocks)"),
 ("M30","C05","pkg/tape/write.go","	if overwrite {\n		if isRegular {","	if overwrite || recordSize == 3 {\n		if isRegular {","record size 3: every writer open starts the tape from scratch"),
 ("M31","C13","pkg/inventory/list.go","	dbHdrs, err := metadata.Metadata.GetHeaderDirectChildren(context.Background(), name, limit)","	dbHdrs, err := metadata.Metadata.GetHeaderDirectChildren(context.Background(), name, limit+limit/4)","count-limited listings of 4 or more ask the store for too many entries"),
]

def run(cmd, **kw):
    return subprocess.run(cmd, shell=True, capture_output=True, text=True, **kw)

def main():
    want = set(sys.argv[1:])
    os.makedirs("/verif/selftest", exist_ok=True)
    outp = "/verif/selftest/sensitivity.json"
    results = json.load(open(outp)) if os.path.exists(outp) else {}
    wt, work = "/tmp/sens/wt", "/tmp/sens/work"
    for (mid, prop, path, old, new, what) in M:
        if want and mid not in want: continue
        run(f"git -C /repo worktree remove --force {wt}; rm -rf /tmp/sens; mkdir -p /tmp/sens")
        r = run(f"git -C /repo worktree add -q {wt} HEAD")
        assert r.returncode == 0, r.stderr
        p = os.path.join(wt, path)
        s = open(p).read()
        if s.count(old) != 1:
            results[mid] = {"property": prop, "what": what, "status": "patch-does-not-apply", "count": s.count(old)}
            print(mid, "PATCH DOES NOT APPLY", s.count(old)); continue
        s = s.replace(old, new)
        if "time.Hour" in new and '"time"' not in s:
            s = s.replace('import (\n', 'import (\n\t"time"\n', 1)
        open(p, "w").write(s)
        b = run("cd %s && GOFLAGS=-mod=mod GOPROXY=off GOSUMDB=off go build ./... 2>&1 | head -5" % wt)
        if b.stdout.strip():
            results[mid] = {"property": prop, "what": what, "status": "does-not-compile", "out": b.stdout[:500]}
            print(mid, "DOES NOT COMPILE", b.stdout[:300]); continue
        t0 = time.time()
        r = run(f"cd /verif && VERIF_REPO={wt} VERIF_WORK={work} ./check {prop} quick")
        viol = [l for l in r.stdout.splitlines() if l.startswith("violation:") or l.startswith("regression")][:2]
        results[mid] = {"property": prop, "what": what, "file": path, "exit": r.returncode, "caught": r.returncode == 1, "wall_s": round(time.time()-t0,1), "first": [v[:300] for v in viol]}
        print(mid, prop, "exit", r.returncode, "CAUGHT" if r.returncode == 1 else "MISSED", round(time.time()-t0,1), "s", (viol[0][:160] if viol else r.stdout[-300:]))
        json.dump(results, open(outp, "w"), indent=1)
    run(f"git -C /repo worktree remove --force {wt}; rm -rf /tmp/sens")
    json.dump(results, open(outp, "w"), indent=1)

main()
