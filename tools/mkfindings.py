#!/usr/bin/env python3
# Writes /verif/findings/*.json (regression / finding replays) and /verif/known_findings.json.
# Run by hand when a finding is added; the checks only ever read these files.
import json, os
PLAIN={"comp":"","lvl":"fastest","enc":"","sig":"","rs":20,"cache":"memory"}
def cfg(**kw):
    c=dict(PLAIN); c.update(kw); return c
def D(n,tag,kind="text"): return {"len":n,"kind":kind,"tag":tag}
O_RDONLY,O_WRONLY,O_RDWR,O_CREATE,O_EXCL,O_TRUNC,O_APPEND=0,1,2,64,128,512,1024
F=[]
import subprocess
def resolve(pat):
    # commit= holds a distinctive part of the fix commit's subject; resolve it to the current hash
    out=subprocess.run(["git","-C","/repo","log","--format=%h %s","-F","--grep",pat],capture_output=True,text=True).stdout.strip().split("\n")
    assert len(out)==1 and out[0], (pat,out)
    return out[0].split()[0]
def add(id,prop,status,oracle,what,ops=None,cfg_=None,commit=None,relax=None,also=None,seed=7,faults=None,params=None,progs=None,sparams=None):
    case={"prop":prop,"seed":seed,"cfg":cfg_ or PLAIN}
    if ops is not None: case["ops"]=ops
    if progs is not None: case["progs"]=progs
    if faults: case["faults"]=faults
    if params: case["params"]=params
    if sparams: case["sparams"]=sparams
    case["expect"]={"property":prop,"oracle":oracle,"detail":what,"step":0}
    fn=f"findings/{id}.json"
    json.dump(case,open("/verif/"+fn,"w"),indent=1)
    e={"id":id,"property":prop,"status":status,"oracle":oracle,"what":what,"replay":fn}
    if commit is not None: e["commit"]=resolve(commit)
    if relax: e["relaxation"]=relax
    if also: e["also"]=also
    F.append(e)

# ---- open findings
add("KF1","C02","open","unexpected-failure:writefile",
    "a regular file whose last name component ends in the suffix of the active compression/encryption format ('.gz', '.zst', '.age', '.pgp', ...) is indexed under the name with that suffix stripped whenever its record carries no encoded content (empty file, metadata update): Create(\"/w.pgp\") under pgp returns not-exist and leaves an entry \"/w\"",
    ops=[{"k":"writefile","p":"/w.pgp","d":D(0,1,"rand")}], cfg_=cfg(enc="pgp"), relax="suffixnames", also=["C12","C14","C04","C05"])

# ---- fixed findings (regression replays; they suppress nothing)
add("F04","C13","fixed","orphan-entry","MkdirAll(\"/x/y/z\") created only the leaf, unreachable from the root",
    ops=[{"k":"mkdirall","p":"/x/y/z","m":0o755}], commit="MkdirAll creates every missing")
add("F05","C13","fixed","parent-not-directory","Mkdir below a regular file succeeded",
    ops=[{"k":"writefile","p":"/f","d":D(3,1)},{"k":"mkdir","p":"/f/x","m":0o755}], commit="refuse to create entries below a regular file")
add("F06","C12","fixed","unexpected-success:rename","Rename of a directory into its own subtree succeeded",
    ops=[{"k":"mkdir","p":"/a","m":0o755},{"k":"writefile","p":"/a/f","d":D(3,1)},{"k":"rename","p":"/a","q":"/a/b"}], commit="refuse to rename a directory into its own subtree")
add("F07","C01","fixed","rebuild-fails","Rename onto a name that was deleted earlier: UNIQUE constraint in MoveHeader, stale index, every later rebuild fails",
    ops=[{"k":"writefile","p":"/a","d":D(5,1)},{"k":"writefile","p":"/b","d":D(3,2)},{"k":"remove","p":"/b"},{"k":"rename","p":"/a","q":"/b"},{"k":"mkdir","p":"/c","m":0o755}], commit="moving onto a previously used name")
add("F08","C02","fixed","tree-differs-after:rename","Rename onto an existing file removed the target and did not move the source",
    ops=[{"k":"writefile","p":"/a","d":D(5,1)},{"k":"writefile","p":"/b","d":D(3,2)},{"k":"rename","p":"/a","q":"/b"}], commit="Rename onto an existing entry replaces it")
add("F09","C12","fixed","tree-differs-after:removeall","RemoveAll(\"/a_\") also deleted \"/ab/x\" (SQL LIKE wildcards in child lookup)",
    ops=[{"k":"mkdir","p":"/a_","m":0o755},{"k":"mkdir","p":"/ab","m":0o755},{"k":"writefile","p":"/ab/x","d":D(3,1)},{"k":"removeall","p":"/a_"}], commit="directory child lookups match the parent path literally")
add("F10","C13","fixed","listing-vs-lookup","\"/d/a/d/d\" was listed as a child of \"/d\" (replace() removed every occurrence of the parent path)",
    ops=[{"k":"mkdir","p":"/d","m":0o755},{"k":"mkdir","p":"/d/a","m":0o755},{"k":"mkdir","p":"/d/a/d","m":0o755},{"k":"mkdir","p":"/d/a/d/d","m":0o755}], commit="directory child lookups match the parent path literally")
add("F11","C01","fixed","rebuild-differs","symlinks were lost by an index rebuild (link path not sanitized like names)",
    ops=[{"k":"mkdir","p":"/d","m":0o755},{"k":"symlink","p":"/d","q":"/d/b"}], commit="symlinks survive an index rebuild")
add("F12","C02","fixed","tree-differs-after:rename","Rename(\"/a\", \"/a\") deleted the entry",
    ops=[{"k":"writefile","p":"/a","d":D(0,1)},{"k":"rename","p":"/a","q":"/a"}], commit="renaming an entry onto itself is a no-op")
add("F13","C02","fixed","tree-differs-after:writefile","rewriting a file reset the owner set by Chown to 0:0",
    ops=[{"k":"writefile","p":"/e","d":D(0,1)},{"k":"chown","p":"/e","u":1001,"g":101},{"k":"writefile","p":"/e","d":D(1,2)}], commit="writing to a file keeps its owner")
add("F14","C02","fixed","unexpected-failure:openfile","OpenFile(O_CREATE|O_EXCL) on a missing file returned not-exist",
    ops=[{"k":"openfile","p":"/x","f":O_RDWR|O_CREATE|O_EXCL,"m":0o644,"h":1},{"k":"h.close","h":1}], commit="OpenFile honours O_CREATE|O_EXCL")
add("F15","C02","fixed","unexpected-failure:h.close","Sync closed the write buffer: every later call on the handle failed with 'file already closed'",
    ops=[{"k":"create","p":"/b","h":1},{"k":"h.write","h":1,"d":D(4,1)},{"k":"h.sync","h":1},{"k":"h.close","h":1}], commit="a file stays usable after Sync")
add("F16","C02","fixed","tree-differs-after:writefile","a created-but-never-written file could not be read under gzip/bzip2/age/pgp (empty record fed to the decoders)",
    ops=[{"k":"writefile","p":"/e","d":D(0,1)}], cfg_=cfg(comp="bzip2",lvl="smallest"), commit="restoring a file that has no content record")
add("F17","C02","fixed","tree-differs-after:h.close","Create/O_TRUNC on an existing file kept the old content unless something was written",
    ops=[{"k":"writefile","p":"/d","d":D(9,1)},{"k":"create","p":"/d","h":2},{"k":"h.close","h":2}], commit="opening a file with O_TRUNC truncates it")
add("F18","C14","fixed","count:readfile","memory write cache: a write beyond the end panicked, a write in the middle corrupted the file",
    ops=[{"k":"writefile","p":"/f","d":D(100,1)},{"k":"openfile","p":"/f","f":O_RDWR,"m":0o644,"h":1},{"k":"h.writeat","h":1,"o":900,"d":D(5,2)},{"k":"h.close","h":1},{"k":"readfile","p":"/f"}], commit="the in-memory write cache writes in place")
add("F19","C14","fixed","count:h.seek","read-mode Seek returned the bytes skipped, SeekEnd subtracted, first write restarted at offset 0",
    ops=[{"k":"writefile","p":"/f","d":D(1000,1)},{"k":"openfile","p":"/f","f":O_RDWR,"m":0o644,"h":1},{"k":"h.read","h":1,"n":100},{"k":"h.seek","h":1,"o":50,"w":1},{"k":"h.seek","h":1,"o":-10,"w":2},{"k":"h.write","h":1,"d":D(4,2)},{"k":"h.close","h":1},{"k":"readfile","p":"/f"}], commit="Seek reports the new offset")
add("F20","C14","fixed","data:readfile","growing a file with Truncate zeroed its old content",
    ops=[{"k":"writefile","p":"/f","d":D(100,1)},{"k":"openfile","p":"/f","f":O_RDWR,"m":0o644,"h":1},{"k":"h.truncate","h":1,"o":200},{"k":"h.close","h":1},{"k":"readfile","p":"/f"}], cfg_=cfg(cache="file"), commit="growing a file with Truncate keeps its content")
add("F21","C14","fixed","count:h.seek","Sync left the cursor at the end of the write buffer",
    ops=[{"k":"writefile","p":"/f","d":D(16,1)},{"k":"openfile","p":"/f","f":O_RDWR|O_CREATE,"m":0o644,"h":1},{"k":"h.write","h":1,"d":D(1,2)},{"k":"h.sync","h":1},{"k":"h.seek","h":1,"o":3,"w":1},{"k":"h.close","h":1}], commit="Sync keeps the file position")
add("F22","C14","fixed","info:h.stat","O_APPEND handle: a write after Seek overwrote data instead of appending",
    ops=[{"k":"writefile","p":"/f","d":D(0,1)},{"k":"openfile","p":"/f","f":O_WRONLY|O_APPEND,"m":0o644,"h":1},{"k":"h.writestring","h":1,"d":D(1,2)},{"k":"h.seek","h":1,"o":0,"w":0},{"k":"h.writestring","h":1,"d":D(1,3)},{"k":"h.stat","h":1},{"k":"h.close","h":1}], commit="O_APPEND writes always go to the end")
if False:
    c=json.load(open("/tmp/c14-198.json"))
    json.dump(c,open("/verif/findings/F23.json","w"),indent=1)
if os.path.exists("/verif/findings/F23.json"):
    F.append({"id":"F23","property":"C14","status":"fixed","oracle":"unexpected-failure:h.sync","what":"Seek(0,0); WriteAt; Sync on a fresh handle failed with 'file already closed' under some schedules: the closed read stream's restore goroutine was still opening/closing the drive reader that the next operation reused","replay":"findings/F23.json","commit":"0ec00c3"})

# C10 / C03 / C08 entries are appended by the sections below once their checks exist
extra="/verif/tools/findings_extra.py"
if os.path.exists(extra): exec(open(extra).read())

for e in F:
    if e["status"]=="fixed":
        e["record"]="fixed: property=%s %s %s" % (e["property"], e.get("commit","?"), e["what"])
    else:
        e["record"]="KNOWN-FINDING: property=%s %s: %s" % (e["property"], e["id"], e["what"])
json.dump({"_comment":"Genuine defects of pojntfx/stfs found by the checks. 'open' entries are still present in /repo: the check replays the entry's file first, prints KNOWN-FINDING while it still fails and only then activates the named relaxation. 'fixed' entries were repaired by the named fix: commit in /repo; their replay is a regression test that suppresses nothing. This file is only read at run time.","findings":F},open("/verif/known_findings.json","w"),indent=1)
print(len(F),"findings")
