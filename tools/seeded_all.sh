#!/bin/bash
# re-runs every seeded change against the checks named for it in tools/seeded_meta.py (3 at a time, quick tier)
cd "$(dirname "$(readlink -f "$0")")/.." || exit 2
python3 - <<'PY' > /tmp/seeded_all.list
src=open('tools/seeded_meta.py').read()
ns={}
exec(src[src.index('T = {'):src.index('rows=[]')],ns)
for k,v in sorted(ns['T'].items()):
    print(k," ".join(v[3]))
PY
run(){ SKIP_BASELINE=1 tools/seeded.sh run "$@" 2>&1 | grep -E "check |DOES NOT|NOT APPLY" | sed "s/^/$1 /"; }
n=0
while read id props; do
  run $id $props &
  n=$((n+1)); if [ $((n%3)) = 0 ]; then wait; fi
done < /tmp/seeded_all.list
wait
