#!/bin/bash
# usage: tools/run_all.sh <tier> <seed> [budget_s]   - runs every check once, prints one line per property
cd "$(dirname "$(readlink -f "$0")")/.." || exit 2
TIER=${1:-quick}; SEED=${2:-1}; BUD=${3:-}
export VERIF_WORK=${VERIF_WORK:-$PWD}
for p in $(jq -r '.checks[].property_id' MANIFEST.json); do
  s=$(date +%s)
  if [ -n "$BUD" ]; then export VERIF_BUDGET_S=$BUD; fi
  VERIF_SEED=$SEED ./check $p $TIER > $VERIF_WORK/build/run_$p.log 2>&1; rc=$?
  echo "$p rc=$rc $(($(date +%s)-s))s $(grep -c '^VIOLATION' $VERIF_WORK/build/run_$p.log) violations: $(tail -1 $VERIF_WORK/build/run_$p.log)"
  grep '^VIOLATION\|^violation' $VERIF_WORK/build/run_$p.log | head -5
  [ $rc = 2 ] && grep -i 'ended without\|abnormal\|broken\|watchdog\|died\|build failed' $VERIF_WORK/build/run_$p.log | head -5
done
