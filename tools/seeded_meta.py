#!/usr/bin/env python3
# writes /verif/seeded/<id>/meta.json from the table below + run.json, and prints the DESIGN.md table
import json, os
T = {
 "S-C01a": ("C01","pkg/operations/update.go: hdr.Format = tar.FormatPAX only set when PAXRecords == nil", "metadata-only update (chmod/chown/chtimes) of an entry whose mtime has a sub-second part, no signature/encryption, then an index rebuild: the tape holds a rounded mtime, the live index the exact one", ["C01","C02"]),
 "S-C02a": ("C02","pkg/fs/file.go syncWithoutLocking: archived mode taken from the handle's cached info again", "chmod of a file while a written handle on it is open, then close: the mode silently reverts", ["C02","C11"]),
 "S-C03a": ("C03","pkg/fs/file.go enterWriteMode: seek to the cursor skipped when readOffset == 0", "rewrite of an existing non-empty file through a fresh handle (O_TRUNC or in-place): zero padding / append instead of overwrite", ["C03","C02","C14"]),
 "S-C04a": ("C04","pkg/recovery/index.go: next record position computed from hdr.Size instead of reading through the content", "batched archive call with >= 2 members under compression/encryption (hdr.Size was overwritten with the uncompressed size)", ["C04"]),
 "S-C05a": ("C05","pkg/operations/update.go: content body skipped for size 0 even with skipSizeCheck", "content update with an empty write buffer (O_TRUNC reopen + close) under gzip/lz4: header claims N bytes, no body, tar stream broken, failed call appended 1536 bytes", ["C05","C02"]),
 "S-C06a": ("C06","pkg/recovery/index.go: resync position rounded down instead of up", "tape cut at an unaligned byte inside a header / padding / trailer: recovery.Index spins forever", ["C06"]),
 "S-C07a": ("C07","pkg/persisters/metadata.go UpsertHeader: skip create records older than the row's last known position", "re-index without wipe of a history create N / rename N->M / create N again: second replay diverges from a scratch rebuild", ["C07"]),
 "S-C08a": ("C08","pkg/signature/verify.go VerifyHeader: json.Unmarshal into the existing header (PAX map merged, not replaced)", "unsigned PAX record injected into the outer header of a signed record (e.g. STFS.ReplacesName) is accepted; even untampered accepted headers carry the wrapper records", ["C08"]),
 "S-C09a": ("C09","pkg/encryption/encrypt.go EncryptHeader: link records keep Typeflag and Linkname on the outer wrapper", "symlink record with encryption on and signatures off: the link path is on the tape in clear", ["C09"]),
 "S-C10a": ("C10","pkg/operations/move.go: writerOpen cleared before the trailer is written", "drive write fault in one of the last three writes (tar trailer) of a rename: drive lock leaked, next call hangs", ["C10"]),
 "S-C11a": ("C11","pkg/fs/filesystem.go Mkdir: parent check moved outside the filesystem lock", "two callers: Mkdir of a child while the other removes/renames the empty parent between the check and the lock: orphan directory, not linearizable", ["C11"]),
 "S-C12a": ("C12","pkg/persisters/metadata.go GetHeaderChildren: LIKE with '%' and '\\\\' escaped but not '_'", "RemoveAll/Rename of a directory with '_' in its name next to a same-length sibling (a_ vs ab, a%)", ["C12"]),
 "S-C13a": ("C13","pkg/persisters/metadata.go GetHeaderDirectChildren: '<' became '<=' in the truncation guard", "Readdir(n) on a directory with exactly n+1 children returns n+1 entries", ["C13"]),
 "S-C14a": ("C14","pkg/fs/file.go Read: cursor only advanced when the read did not hit EOF", "short read across EOF followed by a cursor-dependent call (Seek current, Read, Write on O_RDWR)", ["C14"]),
 "S-C15a": ("C15","pkg/fs/filesystem.go OpenFile: O_TRUNC pre-truncation keyed on the raw flag instead of the granted flags", "read-only instance: OpenFile(O_WRONLY|O_TRUNC or O_RDWR|O_TRUNC) on a non-empty file then Close/Sync: appends to the tape and moves the index row (nil dereference with the serve-http composition)", ["C15"]),
 "S-C16a": ("C16","pkg/recovery/index.go: a damaged header during resync returns an error instead of being skipped", "index absent + tape cut inside the header of its last record: Initialize treats the rebuild error as empty tape and appends a second root", ["C16"]),
 "S-C17a": ("C17","pkg/recovery/index.go: next record position = size/512+1 blocks (wrong ceiling)", "foreign archive with a member whose size is a positive multiple of 512 followed directly by another file: that member cannot be read, later creates fail", ["C17","C04"]),
 "S-C18a": ("C18","pkg/keys/identity.go ParseIdentity: plaintext age keys skip the password step", "age pair generated with the empty password parses under every password", ["C18"]),
 "S-C01b": ("C01","pkg/recovery/index.go: off-by-one (RecordSize-1) when stepping over a trailer that ends in the last block of a record", "an operation whose first header starts at block RecordSize-1 of a tape record: the live index substitutes the in-memory header, a rebuild parses the bare USTAR block without PAX/STFS records (deleted files come back, renamed files exist twice)", ["C01","C04"]),
 "S-C02b": ("C02","pkg/persisters/metadata.go GetHeaderChildren: prefix length passed as Go byte length into SQL substr (characters)", "RemoveAll/Rename of a directory whose path contains a multi-byte character and that has children: descendants are left behind", ["C02","C12"]),
 "S-C04b": ("C04","pkg/operations/update.go: metadata-only updates no longer reset STFS.ReplacesContent=false (the value is inherited from the stored PAX records)", "file written through a handle, then Chmod/Chown/Chtimes: the content position moves to the content-less metadata record; silent, survives rebuild", ["C04","C02"]),
 "S-C05b": ("C05","pkg/fs/file.go Sync: filesystem lock dropped", "two goroutines on the SAME open handle: Write lands between the size pass and the copy pass of a concurrent Sync: tar header claims another size, tape left unaligned and unparsable", ["C11","C05"]),
 "S-C06b": ("C06","pkg/fs/file.go Read: io.ReadFull with ErrUnexpectedEOF mapped to EOF", "tape cut inside the body of a content record, rebuild, read of that entry through File.Read: a cut-off copy is returned with a clean EOF", ["C06"]),
 "S-C07b": ("C07","pkg/recovery/index.go indexHeader: a move whose target name is already live is treated as already applied", "re-index without wipe of any history with a rename whose target is still live: old names stay visible, content position overwritten", ["C07"]),
 "S-C08b": ("C08","pkg/recovery/fetch.go: destination closed before the size check and the signature verification", "content bytes altered on the tape, file read through the streaming File.Read path: the pipe was already closed cleanly, the later signature error is dropped, the reader sees altered bytes and a clean EOF", ["C08"]),
 "S-C10b": ("C10","pkg/recovery/index.go: resync position rounded down (same edit as S-C06a, found independently for C10)", "drive write fault that leaves the tape unaligned (padding write), then any next write: its re-index spins forever holding all locks", ["C10"]),
 "S-C11b": ("C11","pkg/operations: diskOperationLock became an RWMutex, Restore takes the read lock", "two goroutines reading through different handles: the second restore is handed the first one's drive reader (TapeManager reuses an open reader), which is then closed under it: spurious 'file already closed'", ["C11","C14"]),
 "S-C12b": ("C12","pkg/fs/filesystem.go Rename: own-subtree guard moved behind the replace-the-target block", "rename of a directory onto an existing EMPTY directory inside its own subtree: refused with EINVAL but the destination directory is already deleted", ["C12","C02"]),
 "S-C13b": ("C13","pkg/fs/file.go syncWithoutLocking: directory test on Mode bits (always false) instead of Typeflag", "write handle open, file removed, directory with children created under the same name, stale handle closed: the directory's row becomes a regular file, children orphaned", ["C13","C02"]),
 "S-C14b": ("C14","pkg/cache/write.go: in-memory cache grows in place without zeroing the hole", "memory cache, buffer shrunk earlier (Truncate / O_TRUNC reopen), then a write beyond the end: stale bytes instead of zeros in the hole", ["C14","C02"]),
 "S-C16b": ("C16","pkg/persisters/metadata.go UpsertHeader: existence lookup with the unsanitized name", "tape whose history created, removed and re-created a name, opened without an index: rebuild hits UNIQUE on the tombstone, Initialize re-roots the tape", ["C16","C01"]),
}
rows=[]
for sid,(prop,change,needs,props) in sorted(T.items()):
    d=f"/verif/seeded/{sid}"
    run=json.load(open(d+"/run.json")) if os.path.exists(d+"/run.json") else {}
    base=None
    if os.path.exists(d+"/baseline.log"):
        t=open(d+"/baseline.log").read()
        base = "pass" if "\nok " in "\n"+t and "FAIL" not in t else "fail"
    meta={"id":sid,"breaks_property":prop,"change":change,"needs_to_manifest":needs,
          "source":"written by an independent sub-agent that saw only the property text and a scratch worktree; confirmed here",
          "confirmed":{"compiles":True,"baseline_subset_TestFile_Name_TestFileInfo":base,"demonstration_exit_with_change":run.get("demo_exit_with_change"),"demonstration_exit_without_change":run.get("demo_exit_without_change")},
          "what_i_ran":"tools/seeded.sh run %s %s  (fresh worktree of /repo HEAD %s + patch.diff; VERIF_REPO points the checks at it; /repo untouched)"%(sid," ".join(props),run.get("repo_head","?")),
          "checks":run.get("checks",{})}
    json.dump(meta,open(d+"/meta.json","w"),indent=1)
    caught=[p for p,r in run.get("checks",{}).items() if r.get("exit")==1]
    missed=[p for p,r in run.get("checks",{}).items() if r.get("exit")==0]
    rows.append(f"| {sid} | {prop} | {change} | {needs} | {', '.join(caught) or '-'} | {', '.join(missed) or '-'} |")
print("| id | breaks | change | needs | caught by (quick) | tried, not caught |\n|---|---|---|---|---|---|")
print("\n".join(rows))
