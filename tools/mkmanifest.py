#!/usr/bin/env python3
# Regenerates /verif/MANIFEST.json from the table below (kept in one place so it stays valid).
import json, subprocess
props = [json.loads(l) for l in open('/verif/properties.jsonl')]
ids = [p['id'] for p in props]

# id -> (level, design_ref, text, note, technique)
claimed = {
 'C01': ('exploration', 'DESIGN.md §4 C01', 'Seeded simulated histories (all FS ops incl. symlinks and handle groups, swarm over pipeline configurations, record sizes and adversarial name universes) with restart faults (reopen over the same index, rebuild from the tape alone) injected as operations; after every call the live tree and contents are compared with a reopened and a rebuilt instance. Sampling, not proof: the right level because the property quantifies over unbounded histories and the oracle needs no model.', 'Observation through the afero API; SQLite durability trusted; tape-device (non-regular) drive paths not simulated.', 'deterministic simulation, restart injection, differential observation live/reopen/rebuild'),
 'C05': ('exploration', 'DESIGN.md §4 C05', 'Drive-seam monitor in the simulator: after every call of seeded histories (successful and rejected calls, restarts) the previous tape image must be a prefix of the new one, every individual write must land at end-of-file, rejected calls append nothing, the tape is whole 512-byte blocks and an independent archive/tar scan (restart after trailers) iterates it completely; thorough also feeds it to GNU tar.', 'Regular-file drive only; GNU tar 1.34 as second reader in thorough.', 'deterministic simulation with drive-seam invariant monitor + independent tar scan'),
 'C13': ('exploration', 'DESIGN.md §4 C13', 'Namespace invariants monitored after every call of seeded histories: live rows = entries reached by walking from the root; every entry has a live directory parent; Readdir/Readdirnames(n) for n in {-1,0,1,2,3,k,k+1} list only children, each once, all for n<=0, at most n otherwise; every listed entry stats/opens with the listed kind and size.', 'Live entries are read from the index store (GetHeaders).', 'deterministic simulation with namespace invariant monitor'),
}
checks = []
for i in ids:
    if i not in claimed: continue
    lvl, ref, text, note, tech = claimed[i]
    checks.append({
      'property_id': i,
      'quick_cmd': f'./check {i} quick',
      'thorough_cmd': f'./check {i} thorough',
      'evidence_file': f'/verif/evidence/{i}.json',
      'replay_cmd_template': './check --replay {path}',
      'engine': 'stfs-sim',
      'level_claimed': {'category': lvl, 'text': text, 'design_ref': ref},
      'level_note': note,
      'technique': tech,
    })
na = [{'property_id': i, 'reason': 'check not built yet (work in progress; planned per DESIGN.md section 4)'} for i in ids if i not in claimed]
m = {
 'version': 1,
 'setup_cmd': './check --build',
 'hooks': {
   'guard': 'verif-overlay: instrumentation is generated at check time from the current tree and injected with `go build -overlay`; no hook is committed to /repo',
   'enable': './check builds /verif/sim with go1.26.8 test -c -overlay build/overlay/overlay.json (sync.Mutex->simhook.Mutex, go stmt->simhook.Go, os.Stat/Open in pkg/tape->simhook.Os*, + pkg/simhook, + persisters VerifClose)',
   'baseline_off_cmd': 'cd /repo && go test -mod=mod -json -vet=off -count=1 -timeout 25m ./...',
   'source_commits': [],
   'add_only': True,
 },
 'engines': [{'name': 'stfs-sim', 'path': '/verif/sim', 'serves_properties': sorted(claimed), 'kind_free_text': 'deterministic simulator for STFS: synctest bubble (fake clock, quiescence), pinned crypto randomness, seeded cooperative scheduler over instrumented mutexes/goroutines, simulated drive/index/cache seams with fault plans, reference models, ddmin minimiser, process supervisor'}],
 'checks': checks,
 'not_applicable': na,
 'notes': 'See DESIGN.md. Genuine defects found on the pinned tree are repaired by fix: commits in /repo or listed in known_findings.json.',
}
json.dump(m, open('/verif/MANIFEST.json','w'), indent=1)
print('claimed', sorted(claimed), 'n/a', len(na))
