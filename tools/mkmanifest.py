#!/usr/bin/env python3
# Regenerates /verif/MANIFEST.json from the table below (kept in one place so it stays valid).
import json, subprocess
props = [json.loads(l) for l in open('/verif/properties.jsonl')]
ids = [p['id'] for p in props]

# id -> (level, design_ref, text, note, technique)
claimed = {
 'C01': ('exploration', 'DESIGN.md §4 C01', 'Seeded simulated histories (all FS ops incl. symlinks and handle groups, swarm over pipeline configurations, record sizes and adversarial name universes) with restart faults (reopen over the same index, rebuild from the tape alone) injected as operations; after every call the live tree and contents are compared with a reopened and a rebuilt instance. Sampling, not proof: the right level because the property quantifies over unbounded histories and the oracle needs no model.', 'Observation through the afero API; SQLite durability trusted; tape-device (non-regular) drive paths not simulated.', 'deterministic simulation, restart injection, differential observation live/reopen/rebuild'),
 'C05': ('exploration', 'DESIGN.md §4 C05', 'Drive-seam monitor in the simulator: after every call of seeded histories (successful and rejected calls, restarts) the previous tape image must be a prefix of the new one, every individual write must land at end-of-file, rejected calls append nothing, the tape is whole 512-byte blocks and an independent archive/tar scan (restart after trailers) iterates it completely; thorough also feeds it to GNU tar.', 'Regular-file drive only; GNU tar 1.34 as second reader in thorough.', 'deterministic simulation with drive-seam invariant monitor + independent tar scan'),
 'C13': ('exploration', 'DESIGN.md §4 C13', 'Namespace invariants monitored after every call of seeded histories: live rows = entries reached by walking from the root; every entry has a live directory parent; Readdir/Readdirnames(n) for n in {-1,0,1,2,3,k,k+1} list only children, each once, all for n<=0, at most n otherwise; every listed entry stats/opens with the listed kind and size.', 'Live entries are read from the index store (GetHeaders).', 'deterministic simulation with namespace invariant monitor'),
 'C02': ('exploration', 'DESIGN.md §4 C02', 'Lock-step refinement of the real filesystem against an executable reference filesystem (RefFS) inside the simulator: seeded histories over adversarial name universes (reused names, SQL wildcards, suffix-like dots, spaces, non-ASCII, >100-byte components), every OpenFile flag set, contents of 0..several records, restart faults (reopen/rebuild) interleaved; each call\'s outcome/error class and the whole observed tree are compared after every call. Sampling; the model makes it able to see wrong-but-consistent behaviour that self-comparison (C01) cannot.', 'RefFS = POSIX/afero in-memory semantics written for this task; outputs on which references disagree are masked (see evidence assumptions); KF1 (suffix-like names) is an open known finding with a generator exclusion.', 'deterministic simulation, refinement against executable reference model (RefFS)'),
 'C10': ('fault_enumeration', 'DESIGN.md §4 C10', 'For each generated short history a fault-free pilot counts the calls through every simulated seam; then every single fault point (call, seam, k) is executed: k-th drive write (also as short write), drive read, drive seek, drive stat/open system calls (through the overlay hooks, so the real TapeManager error paths run), k-th index-store call, write-cache factory/read/write/seek/size/truncate; each faulted run ends with probe calls. The scheduler\'s lock table gives exact hang detection; panics in any goroutine are caught as process crashes. Exhaustive per history (sampled down above 250/1500 points), sampled over histories; thorough adds fault pairs.', 'Index faults fail before touching the DB; drive Close errors not injected; nothing is required about what a faulted call returns.', 'deterministic simulation with exhaustive single-fault enumeration per history'),
 'C12': ('exploration', 'DESIGN.md §4 C12', 'Generated trees over adversarial alphabets (_ % . space multi-byte quotes, prefix-related siblings) followed by 1-3 RemoveAll/Rename calls on chosen directories (into itself, onto existing directories, sibling and formerly used names); RefFS equality of the whole tree after every call and after a rebuild from the tape.', 'RefFS as C02.', 'deterministic simulation, refinement against RefFS + rebuild restart'),
 'C14': ('exploration', 'DESIGN.md §4 C14', 'Generated handle programs (Read/ReadAt/Seek with all whences and negative..beyond-end offsets/Write/WriteAt/WriteString/Truncate/Sync/Stat, 1-30 calls) on files of 0..several records for every OpenFile flag set, both write caches and a pipeline swarm; every count, offset, byte and EOF is compared with a byte-array reference handle; after Close the entry is stat-ed and read back. The restore goroutine behind read mode is a scheduled task with seeded preemption at the drive seam, which is how the schedule-dependent reader-reuse defect (F23) was found.', 'Cursor after ReadAt/WriteAt, WriteAt on O_APPEND handles and the cursor after an empty write on O_APPEND are unspecified (os.File and in-memory files disagree) and masked.', 'deterministic simulation, refinement against byte-array reference handle, seeded scheduling of the restore goroutine'),
 'C04': ('exploration', 'DESIGN.md §4 C04', 'Invariant monitor after every call of seeded histories biased to batched Operations.Archive calls (k=1..6 members), content/metadata updates, moves and deletes at small record sizes: raw index rows (second SQL view, tombstones included) x independent tar scan of the drive x recovery.Query x recovery.Fetch; every live position must be a record start carrying one of the entry\'s names, block < record size, last-known >= position, Fetch there = the model\'s current content, Query positions = scan offsets, index last-written = last record. Reach probes count records spanning record boundaries and starting at the last block.', 'Expected contents come from RefFS; KF1 name exclusion applies; regular-file drive.', 'deterministic simulation with position invariant monitor (index rows x tape scan x Fetch/Query)'),
 'C06': ('fault_enumeration', 'DESIGN.md §4 C06', 'Crash-point enumeration: the simulated drive records every write of a generated history; every boundary between two writes, every record/header/content boundary +-2 bytes and sampled interior offsets (thorough: every byte of the last records) is taken as the surviving tape; the index is rebuilt over each prefix in a fresh instance (must terminate, no panic) and the observed tree and contents are compared with the rebuild of the tape cut back to the last complete record: only the torn record\'s own entry may differ and reading it must fail or return its old content.', 'Crash = byte prefix of the issued writes (append-only tape, never synced); reference state tied to the live state by C01.', 'deterministic simulation with crash-point enumeration over the recorded drive write stream'),
 'C07': ('fault_enumeration', 'DESIGN.md §4 C07', 'Duplicate delivery of the log: for every call boundary j of generated histories (moves, delete-then-recreate, renames onto used names) the index of the tape prefix at j is built, then the whole tape is re-indexed into it without wiping, twice; both passes must return nil and the observed state after pass 1, pass 2 and a from-scratch rebuild must agree. Exhaustive over j per history.', 'Prefix indexes are rebuilds of the tape cut at call boundaries.', 'deterministic simulation: replay of the tape into every prefix index, twice'),
 'C16': ('fault_enumeration', 'DESIGN.md §4 C16', 'Restart enumeration: tapes of generated histories, intact or cut at enumerated crash points (call/record boundaries, inside headers, inside content), combined with an absent, current or stale (snapshot at an earlier call boundary) index; a fresh instance is constructed and initialised over copies; judged: old tape is a prefix of the new, nothing appended when a root record exists, observed state = from-scratch rebuild of that tape, and files/directories written afterwards read back and survive a rebuild. Three open known findings (KF2 torn content, KF3 stale index, KF4 torn/unaligned tail) restrict what is judged in exactly those sub-spaces while their replays still fail.', 'Index snapshots are file copies at call boundaries; an index ahead of the tape is not modelled.', 'deterministic simulation: enumeration of (tape crash point x index state) restarts'),
}
checks = []
for i in ids:
    if i not in claimed: continue
    lvl, ref, text, note, tech = claimed[i]
    checks.append({
      'property_id': i,
      'quick_cmd': f'./check {i} quick',
      'thorough_cmd': f'./check {i} thorough',
      'evidence_file': f'/verif/evidence/{i}.json',
      'replay_cmd_template': './check --replay {path}',
      'engine': 'stfs-sim',
      'level_claimed': {'category': lvl, 'text': text, 'design_ref': ref},
      'level_note': note,
      'technique': tech,
    })
na = [{'property_id': i, 'reason': 'check not built yet (work in progress; planned per DESIGN.md section 4)'} for i in ids if i not in claimed]
m = {
 'version': 1,
 'setup_cmd': './check --build',
 'hooks': {
   'guard': 'verif-overlay: instrumentation is generated at check time from the current tree and injected with `go build -overlay`; no hook is committed to /repo',
   'enable': './check builds /verif/sim with go1.26.8 test -c -overlay build/overlay/overlay.json (sync.Mutex->simhook.Mutex, go stmt->simhook.Go, os.Stat/Open in pkg/tape->simhook.Os*, + pkg/simhook, + persisters VerifClose)',
   'baseline_off_cmd': 'cd /repo && go test -mod=mod -json -vet=off -count=1 -timeout 25m ./...',
   'source_commits': [],
   'add_only': True,
 },
 'engines': [{'name': 'stfs-sim', 'path': '/verif/sim', 'serves_properties': sorted(claimed), 'kind_free_text': 'deterministic simulator for STFS: synctest bubble (fake clock, quiescence), pinned crypto randomness, seeded cooperative scheduler over instrumented mutexes/goroutines, simulated drive/index/cache seams with fault plans, reference models, ddmin minimiser, process supervisor'}],
 'checks': checks,
 'not_applicable': na,
 'notes': 'See DESIGN.md. Genuine defects found on the pinned tree are repaired by fix: commits in /repo or listed in known_findings.json.',
}
json.dump(m, open('/verif/MANIFEST.json','w'), indent=1)
print('claimed', sorted(claimed), 'n/a', len(na))
