package sim

import (
	"encoding/json"
	"fmt"
	"hash/fnv"
	"math/rand/v2"
	"os"
	"sort"
	"strings"
	"testing"
	"time"
)

// Case is one fully determined simulated execution: the replay file.
type Case struct {
	Prop   string            `json:"prop"`
	Seed   uint64            `json:"seed"`
	Tier   string            `json:"tier,omitempty"`
	Cfg    Config            `json:"cfg"`
	Ops    []Op              `json:"ops,omitempty"`
	Progs  [][]Op            `json:"progs,omitempty"`
	Faults []Fault           `json:"faults,omitempty"`
	P      map[string]int64  `json:"params,omitempty"`
	S      map[string]string `json:"sparams,omitempty"`
	Note   string            `json:"note,omitempty"`
	// filled in when a violation is recorded
	Expect *Violation `json:"expect,omitempty"`
}

func (c *Case) Param(k string, def int64) int64 {
	if v, ok := c.P[k]; ok {
		return v
	}
	return def
}

func (c *Case) Clone() *Case {
	b, _ := json.Marshal(c)
	var d Case
	json.Unmarshal(b, &d)
	return &d
}

type Violation struct {
	Prop   string `json:"property"`
	Oracle string `json:"oracle"` // stable id of the failed check (used for minimisation and known findings)
	Detail string `json:"detail"`
	Step   int    `json:"step"`
}

func (v *Violation) String() string {
	return fmt.Sprintf("property=%s oracle=%s step=%d: %s", v.Prop, v.Oracle, v.Step, v.Detail)
}

// Stats are measured by the checks themselves and aggregated into evidence.
type Stats struct {
	Evals    int64            `json:"evals"`
	C        map[string]int64 `json:"c"`
	Distinct map[uint64]bool  `json:"-"`
	DKeys    []uint64         `json:"d,omitempty"`
	Samples  []string         `json:"samples,omitempty"`
	// named sets of hashes: distinct interleavings, distinct final states, ...
	Sets map[string][]uint64 `json:"sets,omitempty"`
	sets map[string]map[uint64]bool
}

// Mark adds key to the named set (measures of reach: distinct interleavings, states, ...).
func (s *Stats) Mark(set, key string) {
	if s.sets == nil {
		s.sets = map[string]map[uint64]bool{}
	}
	if s.sets[set] == nil {
		s.sets[set] = map[uint64]bool{}
	}
	h := fnv.New64a()
	h.Write([]byte(key))
	s.sets[set][h.Sum64()] = true
}

func (s *Stats) SetSizes() map[string]int {
	out := map[string]int{}
	for k, v := range s.sets {
		out[k] = len(v)
	}
	return out
}

func NewStats() *Stats { return &Stats{C: map[string]int64{}, Distinct: map[uint64]bool{}} }

func (s *Stats) Add(k string, n int64) { s.C[k] += n }

func (s *Stats) Nontrivial(key string) {
	h := fnv.New64a()
	h.Write([]byte(key))
	s.Distinct[h.Sum64()] = true
}

func (s *Stats) Sample(x string) {
	if len(s.Samples) < 3 {
		if len(x) > 1500 {
			x = x[:1500] + "..."
		}
		s.Samples = append(s.Samples, x)
	}
}

func (s *Stats) Merge(o *Stats) {
	s.Evals += o.Evals
	for k, v := range o.C {
		s.C[k] += v
	}
	for k := range o.Distinct {
		s.Distinct[k] = true
	}
	for _, k := range o.DKeys {
		s.Distinct[k] = true
	}
	for name, ks := range o.Sets {
		for _, k := range ks {
			if s.sets == nil {
				s.sets = map[string]map[uint64]bool{}
			}
			if s.sets[name] == nil {
				s.sets[name] = map[uint64]bool{}
			}
			s.sets[name][k] = true
		}
	}
	for name, m := range o.sets {
		for k := range m {
			if s.sets == nil {
				s.sets = map[string]map[uint64]bool{}
			}
			if s.sets[name] == nil {
				s.sets[name] = map[uint64]bool{}
			}
			s.sets[name][k] = true
		}
	}
	for _, x := range o.Samples {
		if len(s.Samples) < 5 {
			s.Samples = append(s.Samples, x)
		}
	}
}

func (s *Stats) Export() {
	s.DKeys = s.DKeys[:0]
	for k := range s.Distinct {
		s.DKeys = append(s.DKeys, k)
	}
	sort.Slice(s.DKeys, func(i, j int) bool { return s.DKeys[i] < s.DKeys[j] })
	s.Sets = map[string][]uint64{}
	for name, m := range s.sets {
		for k := range m {
			s.Sets[name] = append(s.Sets[name], k)
		}
	}
}

// Relax holds the active relaxations of open known findings.
type Relax map[string]bool

// Check is one property's generator and evaluator.
type Check struct {
	ID    string
	Level string // MANIFEST level category
	Tech  string
	Rule  string // how cases are generated and what makes one non-trivial
	// Gen draws the i-th case of a batch from its own PRNG stream.
	Gen func(r *rand.Rand, tier string, relax Relax) *Case
	// Eval executes the case on the real code and judges it.
	Eval func(t *testing.T, c *Case, st *Stats, relax Relax) *Violation
	// budgets
	QuickRuns, ThoroughRuns int
	QuickSecs, ThoroughSecs int
	Assumptions             []string
	// MaxWorkers caps the number of worker processes (0 = no cap): for checks whose runs are
	// memory-hungry (key derivation: scrypt with 1 GiB per call)
	MaxWorkers int
}

var Checks = map[string]*Check{}

func Register(c *Check) { Checks[c.ID] = c }

func mix(seed uint64, i uint64) uint64 {
	x := seed*0x9E3779B97F4A7C15 + i*0xBF58476D1CE4E5B9 + 0x94D049BB133111EB
	x ^= x >> 30
	x *= 0xBF58476D1CE4E5B9
	x ^= x >> 27
	x *= 0x94D049BB133111EB
	x ^= x >> 31
	return x
}

func opsString(ops []Op) string {
	var sb strings.Builder
	for i, o := range ops {
		fmt.Fprintf(&sb, "%d: %s\n", i, o.String())
	}
	return sb.String()
}

func opKinds(ops []Op) string {
	var ks []string
	for _, o := range ops {
		ks = append(ks, o.K)
	}
	return strings.Join(ks, ",")
}

// ---------------------------------------------------------------- sequential runs

type SeqCtx struct {
	T     *testing.T
	S     *Sched
	W     *World
	St    *Stack
	Ex    *Exec
	Case  *Case
	Stats *Stats
	Relax Relax
}

// outcomeViolation turns simulator-level anomalies into a violation.
func outcomeViolation(prop string, out Outcome, step int) *Violation {
	switch {
	case len(out.Crashes) > 0:
		return &Violation{Prop: prop, Oracle: "crash", Detail: "a panic would have killed the process: " + out.Crashes[0], Step: step}
	case out.Deadlock != "":
		return &Violation{Prop: prop, Oracle: "hang", Detail: "call never returns: " + out.Deadlock, Step: step}
	case len(out.Misuse) > 0:
		return &Violation{Prop: prop, Oracle: "lock-misuse", Detail: out.Misuse[0], Step: step}
	}
	return nil
}

type seqOpts struct {
	NoOpen    bool
	YieldProb float64
	Open      OpenOpts
}

// RunSeq runs body as the single client of a fresh world inside a bubble.
func RunSeq(t *testing.T, c *Case, st *Stats, relax Relax, o seqOpts, body func(x *SeqCtx) *Violation) *Violation {
	var v *Violation
	step := -1
	finished := false
	var x *SeqCtx
	out := RunBubble(t, c.Seed, BubbleOpts{Stick: 0.9, YieldProb: o.YieldProb}, func(s *Sched) {
		w, err := NewWorld(c.Cfg, s)
		if err != nil {
			v = &Violation{Prop: c.Prop, Oracle: "harness", Detail: err.Error()}
			return
		}
		defer w.Close()
		x = &SeqCtx{T: t, S: s, W: w, Case: c, Stats: st, Relax: relax}
		if !o.NoOpen {
			stk, err := w.Open(o.Open)
			if stk != nil {
				defer stk.Close()
			}
			if err != nil {
				v = &Violation{Prop: c.Prop, Oracle: "open", Detail: "opening a fresh filesystem fails: " + err.Error()}
				finished = true
				return
			}
			x.St = stk
			x.Ex = NewExec(stk.FS, s)
			defer x.Ex.CloseAll()
		}
		v = body(x)
		if b, err := os.ReadFile(w.Drive); err == nil {
			st.Mark("distinct_final_tapes", sumOf(b))
		}
		finished = true
	})
	st.Mark("distinct_schedules", fmt.Sprintf("%x/%d", out.SwitchHash, out.Steps))
	st.Add("sim_time_s", int64(out.SimTime/time.Second))
	st.Add("sched_steps", int64(out.Steps))
	st.Add("context_switches", int64(out.Switches))
	if !finished || v == nil {
		if ov := outcomeViolation(c.Prop, out, step); ov != nil {
			return ov
		}
		if !finished && v == nil {
			return &Violation{Prop: c.Prop, Oracle: "harness", Detail: "run did not finish: " + out.BubblePanic}
		}
	}
	return v
}

func randNew(seed uint64) *rand.Rand { return rand.New(rand.NewPCG(seed, 0xC0FFEE)) }
