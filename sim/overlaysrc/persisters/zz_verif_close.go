package persisters

import "database/sql"

// Added by /verif's overlay only (not part of pojntfx/stfs): the persister has
// no Close, so every simulated run would leak database/sql's goroutines.
func (p *MetadataPersister) VerifClose() error {
	if p.sqlite != nil && p.sqlite.DB != nil {
		return p.sqlite.DB.Close()
	}
	return nil
}

// VerifDB exposes the handle so the harness can dump raw rows (tombstones included).
func (p *MetadataPersister) VerifDB() *sql.DB {
	if p.sqlite == nil {
		return nil
	}
	return p.sqlite.DB
}
