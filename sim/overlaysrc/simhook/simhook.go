// Package simhook is NOT part of pojntfx/stfs. It is added to the build by
// /verif's overlay generator (go build -overlay) so that the deterministic
// simulator owns lock acquisition order, goroutine creation and the drive's
// open/stat system calls. With no scheduler installed every hook is a plain
// pass-through (sync.Mutex, go statement, os.*).
package simhook

import (
	"io"
	"os"
	"sync"
	"sync/atomic"
)

// Scheduler is implemented by the simulator.
type Scheduler interface {
	Lock(m *Mutex)
	Unlock(m *Mutex)
	Go(f func())
	// Park is a mandatory scheduling point (after a pipe hand-off).
	Park(where string)
	// RLock/RUnlock: shared acquisition of a (read-write) mutex.
	RLock(m *Mutex)
	RUnlock(m *Mutex)
	// TryLock: non-blocking acquisition (exclusive, or shared for TryRLock).
	TryLock(m *Mutex, shared bool) bool
}

type schedBox struct{ s Scheduler }

var cur atomic.Pointer[schedBox]

// Install sets (or, with nil, removes) the scheduler.
func Install(s Scheduler) {
	if s == nil {
		cur.Store(nil)
		return
	}
	cur.Store(&schedBox{s})
}

func current() Scheduler {
	if b := cur.Load(); b != nil {
		return b.s
	}
	return nil
}

// Mutex replaces sync.Mutex in the instrumented packages.
type Mutex struct {
	mu sync.Mutex
}

func (m *Mutex) Lock() {
	if s := current(); s != nil {
		s.Lock(m)
		return
	}
	m.mu.Lock()
}

func (m *Mutex) TryLock() bool {
	if s := current(); s != nil {
		return s.TryLock(m, false)
	}
	return m.mu.TryLock()
}

func (m *Mutex) Unlock() {
	if s := current(); s != nil {
		s.Unlock(m)
		return
	}
	m.mu.Unlock()
}

// Go replaces the go statement in the instrumented packages.
func Go(f func()) {
	if s := current(); s != nil {
		s.Go(f)
		return
	}
	go f()
}

// OsHooks lets the simulator fail the drive's open/stat calls.
type OsHooks struct {
	Stat     func(name string) (os.FileInfo, error)
	OpenFile func(name string, flag int, perm os.FileMode) (*os.File, error)
	Open     func(name string) (*os.File, error)
}

var osHooks atomic.Pointer[OsHooks]

func InstallOs(h *OsHooks) { osHooks.Store(h) }

func OsStat(name string) (os.FileInfo, error) {
	if h := osHooks.Load(); h != nil && h.Stat != nil {
		return h.Stat(name)
	}
	return os.Stat(name)
}

func OsOpenFile(name string, flag int, perm os.FileMode) (*os.File, error) {
	if h := osHooks.Load(); h != nil && h.OpenFile != nil {
		return h.OpenFile(name, flag, perm)
	}
	return os.OpenFile(name, flag, perm)
}

func OsOpen(name string) (*os.File, error) {
	if h := osHooks.Load(); h != nil && h.Open != nil {
		return h.Open(name)
	}
	return os.Open(name)
}

// Pipe replaces io.Pipe in the instrumented packages. A pipe hand-off wakes
// the other side without the scheduler's doing; to keep "who runs" a decision
// of the scheduler the writing side parks right after every Write/Close, so
// that after a hand-off exactly one of the two goroutines keeps running.
func Pipe() (*io.PipeReader, *PipeWriter) {
	r, w := io.Pipe()
	return r, &PipeWriter{w: w}
}

type PipeWriter struct{ w *io.PipeWriter }

func (p *PipeWriter) Write(b []byte) (int, error) {
	n, err := p.w.Write(b)
	if s := current(); s != nil {
		s.Park("pipe.write")
	}
	return n, err
}

func (p *PipeWriter) Close() error {
	err := p.w.Close()
	if s := current(); s != nil {
		s.Park("pipe.close")
	}
	return err
}

func (p *PipeWriter) CloseWithError(e error) error {
	err := p.w.CloseWithError(e)
	if s := current(); s != nil {
		s.Park("pipe.close")
	}
	return err
}

// RWMutex replaces sync.RWMutex in the instrumented packages.
type RWMutex struct {
	id Mutex // identity of the lock in the scheduler's table
	mu sync.RWMutex
}

func (m *RWMutex) Lock() {
	if s := current(); s != nil {
		s.Lock(&m.id)
		return
	}
	m.mu.Lock()
}

func (m *RWMutex) TryLock() bool {
	if s := current(); s != nil {
		return s.TryLock(&m.id, false)
	}
	return m.mu.TryLock()
}

func (m *RWMutex) TryRLock() bool {
	if s := current(); s != nil {
		return s.TryLock(&m.id, true)
	}
	return m.mu.TryRLock()
}

func (m *RWMutex) Unlock() {
	if s := current(); s != nil {
		s.Unlock(&m.id)
		return
	}
	m.mu.Unlock()
}

func (m *RWMutex) RLock() {
	if s := current(); s != nil {
		s.RLock(&m.id)
		return
	}
	m.mu.RLock()
}

func (m *RWMutex) RUnlock() {
	if s := current(); s != nil {
		s.RUnlock(&m.id)
		return
	}
	m.mu.RUnlock()
}
