package sim

import (
	"archive/tar"
	"bytes"
	"encoding/base64"
	"encoding/json"
	"errors"
	"fmt"
	"io"
	"math/rand/v2"
	"os"
	"sort"
	"strings"
	"testing"

	"github.com/pojntfx/stfs/pkg/config"
	"github.com/pojntfx/stfs/pkg/encryption"
	"github.com/pojntfx/stfs/pkg/signature"
	"github.com/spf13/afero"
)

const (
	paxEmbedded = "STFS.EmbeddedHeader"
	paxSig      = "STFS.Signature"
)

// hdrKey is the field-for-field identity of a header as the indexer reports it.
func hdrKey(h *config.Header, cfg Config) string {
	pax := map[string]string{}
	json.Unmarshal([]byte(h.Paxrecords), &pax)
	var ks []string
	for k, v := range pax {
		if strings.HasPrefix(k, "STFS.") {
			ks = append(ks, k+"="+v)
		}
	}
	sort.Strings(ks)
	name := h.Name
	if h.Typeflag == int64(tar.TypeReg) || h.Typeflag == 0 {
		name = stripSuffix(name, cfg)
	}
	return fmt.Sprintf("%s|%s|%c|%o|%d:%d|%d|%s", name, h.Linkname, rune(h.Typeflag), h.Mode, h.UID, h.Gid, h.Modtime.UnixNano(), strings.Join(ks, ","))
}

func paxOf(h *config.Header) map[string]string {
	pax := map[string]string{}
	json.Unmarshal([]byte(h.Paxrecords), &pax)
	return pax
}

type sigWorld struct {
	tape    []byte
	recs    []TapeRec
	signed  map[string]bool   // hdrKey of every header the legitimate writer signed
	content map[string]string // content signature -> digest of the content signed with it
	cfg     Config
}

// buildSignedTape runs a small history and records what the writer signed.
func buildSignedTape(x *SeqCtx) (*sigWorld, *Violation) {
	c := x.Case
	sw := &sigWorld{signed: map[string]bool{}, content: map[string]string{}, cfg: c.Cfg}
	seen := 0
	note := func(data []byte) {
		for _, ev := range x.St.Events[seen:] {
			if ev.Indexed {
				continue
			}
			sw.signed[hdrKey(ev.Header, c.Cfg)] = true
			// the content signature first appears on the record that carries the
			// content; later metadata/move/delete records of the entry repeat it
			if s, ok := paxOf(ev.Header)[paxSig]; ok && s != "" {
				if _, known := sw.content[s]; !known {
					sw.content[s] = sumOf(data)
				}
			}
		}
		seen = len(x.St.Events)
	}
	note(nil) // the root
	if v := runOps(x, func(i int, op Op, res Res) *Violation {
		var d []byte
		if op.D != nil {
			d = op.D.Bytes()
		}
		note(d)
		return nil
	}); v != nil {
		return nil, v
	}
	var err error
	if sw.tape, err = os.ReadFile(x.W.Drive); err != nil {
		return nil, &Violation{Prop: c.Prop, Oracle: "harness", Detail: err.Error()}
	}
	if sw.recs, err = ScanTape(sw.tape); err != nil {
		return nil, &Violation{Prop: c.Prop, Oracle: "tape-not-tar", Detail: err.Error()}
	}
	return sw, nil
}

// judgeTape rebuilds an index over the (altered) tape and checks that
// everything accepted was signed and everything restored is what was signed.
func judgeTape(x *SeqCtx, sw *sigWorld, tape []byte, what string) *Violation {
	c := x.Case
	d, err := x.W.PrefixDrive(tape, len(tape))
	if err != nil {
		return &Violation{Prop: c.Prop, Oracle: "harness", Detail: err.Error()}
	}
	defer os.Remove(d)
	st, err := x.W.Open(OpenOpts{Drive: d, Index: x.W.NewIndexPath(), NoInit: true})
	if st != nil {
		defer st.Close()
	}
	if err != nil {
		return &Violation{Prop: c.Prop, Oracle: "harness", Detail: err.Error()}
	}
	var accepted []*config.Header
	ierr := Reindex(st, true, func(h *config.Header) {
		cp := *h
		accepted = append(accepted, &cp)
	})
	_ = ierr
	x.Stats.Add("headers_accepted", int64(len(accepted)))
	for _, h := range accepted {
		if !sw.signed[hdrKey(h, c.Cfg)] {
			return &Violation{Prop: c.Prop, Oracle: "accepted-header-not-signed", Detail: fmt.Sprintf("%s: the indexer accepted header %s which the writer never signed", what, hdrKey(h, c.Cfg))}
		}
	}
	// every restorable entry: error, or exactly the content signed under its header
	rows, err := st.MP.GetHeaders(contextBG())
	if err != nil {
		return &Violation{Prop: c.Prop, Oracle: "harness", Detail: err.Error()}
	}
	for _, r := range rows {
		if r.Typeflag != int64(tar.TypeReg) && r.Typeflag != 0 {
			continue
		}
		got, err := fetchAt(st, r.Record, r.Block)
		if err != nil {
			x.Stats.Add("restores_failed_cleanly", 1)
			continue
		}
		x.Stats.Add("restores_succeeded", 1)
		sig := paxOf(r)[paxSig]
		want, ok := sw.content[sig]
		if !ok {
			want = sumOf(nil) // header-only record: empty content
		}
		if sumOf(got) != want && os.Getenv("VERIF_VERBOSE") != "" {
			fmt.Printf("DEBUG row %q pax=%v\ncontent keys=%v\n", r.Name, paxOf(r), sw.content)
		}
		if sumOf(got) != want {
			return &Violation{Prop: c.Prop, Oracle: "restored-content-not-signed", Detail: fmt.Sprintf("%s: restoring %q returns %s without error, signed content is %s", what, r.Name, sumOf(got), want)}
		}
	}
	// the same through the filesystem's streaming read path (Open + Read to EOF):
	// a consumer that reaches a clean EOF must have received signed content
	for _, r := range rows {
		if r.Typeflag != int64(tar.TypeReg) && r.Typeflag != 0 {
			continue
		}
		want, ok := sw.content[paxOf(r)[paxSig]]
		if !ok {
			want = sumOf(nil)
		}
		// two ways of reading: large buffers to EOF, and the way io.ReadFull + a probe for EOF reads
		// (one buffer of exactly the reported size, then further reads until the end is signalled;
		// the verdict on the content signature only arrives with the end of the stream)
		for _, how := range []string{"large buffers", "one buffer of exactly the reported size, then to EOF"} {
			var got []byte
			var err error
			if how == "large buffers" {
				got, err = ReadAll(st.FS, cleanAbs(r.Name))
			} else {
				got, err = readExact(st.FS, cleanAbs(r.Name))
			}
			if err != nil {
				x.Stats.Add("fs_reads_failed_cleanly", 1)
				continue
			}
			x.Stats.Add("fs_reads_succeeded", 1)
			if sumOf(got) != want {
				return &Violation{Prop: c.Prop, Oracle: "read-content-not-signed", Detail: fmt.Sprintf("%s: reading %q through the filesystem (%s) reaches EOF without error after %s, signed content is %s", what, r.Name, how, sumOf(got), want)}
			}
		}
	}
	return nil
}

// rewriteTape re-serialises the scanned records, letting edit change headers.
// edit returns (replacement header, replacement data, keep).
func rewriteTape(sw *sigWorld, edit func(i int, h *tar.Header, data []byte) (*tar.Header, []byte, bool)) []byte {
	var out bytes.Buffer
	// archives are re-created one per original archive so that trailers stay
	cur := -1
	var tw *tar.Writer
	for i, r := range sw.recs {
		if r.Archive != cur {
			if tw != nil {
				tw.Close()
			}
			tw = tar.NewWriter(&out)
			cur = r.Archive
		}
		data := sw.tape[r.DataOff : r.DataOff+r.Size]
		h := *r.Hdr
		h.PAXRecords = map[string]string{}
		for k, v := range r.Hdr.PAXRecords {
			h.PAXRecords[k] = v
		}
		nh, nd, keep := edit(i, &h, append([]byte(nil), data...))
		if !keep {
			continue
		}
		nh.Size = int64(len(nd))
		nh.Format = tar.FormatPAX
		if err := tw.WriteHeader(nh); err != nil {
			continue
		}
		tw.Write(nd)
	}
	if tw != nil {
		tw.Close()
	}
	return out.Bytes()
}

// inner returns the signed wrapper (PAX EmbeddedHeader + Signature) of a record,
// decrypting the outer wrapper when encryption is on; set writes it back.
func (sw *sigWorld) inner(st *Stack, h *tar.Header) (*tar.Header, bool) {
	cp := *h
	cp.PAXRecords = map[string]string{}
	for k, v := range h.PAXRecords {
		cp.PAXRecords[k] = v
	}
	if sw.cfg.Encryption != "" {
		if err := encryption.DecryptHeader(&cp, sw.cfg.Encryption, st.EncIdentity); err != nil {
			return nil, false
		}
	}
	if _, ok := cp.PAXRecords[paxEmbedded]; !ok {
		return nil, false
	}
	return &cp, true
}

func (sw *sigWorld) outer(st *Stack, in *tar.Header) *tar.Header {
	cp := *in
	if sw.cfg.Encryption != "" {
		if err := encryption.EncryptHeader(&cp, sw.cfg.Encryption, st.EncRecipient); err != nil {
			return in
		}
	}
	return &cp
}

func init() {
	Register(&Check{
		ID: "C08", Level: "fault_enumeration", Tech: "deterministic simulation: at-rest corruption of the simulated drive (single-byte alterations enumerated over header bytes, sampled over content) and structured forgeries, then rebuild + restore in a fresh instance",
		Rule:      "tapes written by small generated histories under {minisign,pgp} x {none,age,pgp} x compression subset; alterations: every header/PAX byte at a stride (thorough: every byte) x masks {0x01,0x80,0xFF}, sampled content bytes; forgeries: embedded header edited with kept / removed / garbage / re-encoded / non-signature-packet signature, signatures swapped between records, record signed with a second key, unsigned plain tar member appended and spliced, records duplicated, fields of the unsigned OUTER tar header edited with the checksum recomputed (size 0 / half / +512, typeflag), unsigned pax global-header records carrying STFS delete / rename / create actions for a signed entry; oracle: every header the indexer accepts (onHeader after verification) is field-for-field one the writer signed, every restore fails or returns the content signed under that header; an evaluation = one altered tape; non-trivial = the alteration changed a header or content byte of a record; distinct by (config, alteration kind, record, offset)",
		QuickRuns: 120, QuickSecs: 80, ThoroughRuns: 600, ThoroughSecs: 1700,
		Assumptions: []string{"replay/reordering/dropping of validly signed records is not forbidden by the property: counted, not judged", "the attacker knows the encryption recipient (public key) but not the signing identity"},
		Gen: func(r *rand.Rand, tier string, relax Relax) *Case {
			c := &Case{P: map[string]int64{"enumerate": 1}, S: map[string]string{}}
			c.Cfg = Config{Level: "fastest", RecordSize: []int{1, 3, 20}[r.IntN(3)], Cache: "memory"}
			c.Cfg.Signature = []string{"minisign", "pgp"}[r.IntN(2)]
			c.Cfg.Encryption = []string{"", "", "age", "pgp"}[r.IntN(4)]
			c.Cfg.Compression = []string{"", "", "gzip", "zstandard", "lz4", "brotli"}[r.IntN(6)]
			tag := uint32(0)
			d := func(n int) *Data { tag++; return &Data{Len: n, Kind: "text", Tag: tag} }
			c.Ops = []Op{{K: "mkdir", P: "/d", M: 0o755}, {K: "writefile", P: "/d/f", D: d(1 + r.IntN(900))}}
			extra := []Op{{K: "writefile", P: "/g", D: d(r.IntN(600))}, {K: "chmod", P: "/d/f", M: 0o600}, {K: "rename", P: "/d/f", Q: "/h"}, {K: "remove", P: "/d/f"}, {K: "writefile", P: "/d/f", D: d(300)}}
			for i := r.IntN(3); i > 0; i-- {
				c.Ops = append(c.Ops, extra[r.IntN(len(extra))])
			}
			return c
		},
		Eval: evalC08,
	})
}

func evalC08(t *testing.T, c *Case, st *Stats, relax Relax) *Violation {
	if c.Cfg.Signature == "" {
		return nil // not a C08 configuration (can only come from a minimiser candidate)
	}
	return RunSeq(t, c, st, relax, seqOpts{}, func(x *SeqCtx) *Violation {
		sw, v := buildSignedTape(x)
		if v != nil {
			return v
		}
		// sanity: the untouched tape is accepted completely
		if v := judgeTape(x, sw, sw.tape, "unaltered tape"); v != nil {
			v.Oracle = "unaltered-" + v.Oracle
			return v
		}
		type alt struct {
			kind string
			arg  [3]int64
		}
		var alts []alt
		if c.Param("enumerate", 1) == 0 {
			alts = []alt{{c.S["alt"], [3]int64{c.Param("a0", 0), c.Param("a1", 0), c.Param("a2", 0)}}}
		} else {
			stride := 7
			if c.Tier == "thorough" {
				stride = 1
			}
			for ri, r := range sw.recs {
				for off := r.Off; off < r.DataOff; off += int64(stride) {
					for _, m := range []int64{0x01, 0x80, 0xFF} {
						alts = append(alts, alt{"flip", [3]int64{off, m, int64(ri)}})
					}
				}
				for k := int64(0); k < 3 && r.Size > 0; k++ {
					alts = append(alts, alt{"flip", [3]int64{r.DataOff + (r.Size*k)/3, 0x01, int64(ri)}})
				}
			}
			max := 350
			if c.Tier == "thorough" {
				max = 6000
			}
			if len(alts) > max {
				rr := rand.New(rand.NewPCG(c.Seed, 8))
				rr.Shuffle(len(alts), func(i, j int) { alts[i], alts[j] = alts[j], alts[i] })
				alts = alts[:max]
			}
			for ri := range sw.recs {
				for _, k := range []string{"edit-keep-sig", "remove-sig", "garbage-sig", "notbase64-sig", "nonsig-packet", "reencode-sig", "second-key", "dup"} {
					alts = append(alts, alt{k, [3]int64{int64(ri), 0, 0}})
				}
				if ri+1 < len(sw.recs) {
					alts = append(alts, alt{"swap-sig", [3]int64{int64(ri), int64(ri + 1), 0}})
				}
			}
			alts = append(alts, alt{"append-unsigned", [3]int64{}}, alt{"splice-unsigned", [3]int64{1, 0, 0}})
			// unsigned pax GLOBAL header records (typeflag 'g', as pax / git archive write them) that
			// carry STFS action records for a signed entry: delete it, rename it, re-create it
			for ri := range sw.recs {
				for k := int64(0); k < 3; k++ {
					alts = append(alts, alt{"append-global", [3]int64{int64(ri), k, 0}})
				}
			}
			// the outer tar header is an unsigned wrapper: its fields edited with the tar
			// checksum recomputed (a single flipped byte never gets past the checksum)
			for ri, r := range sw.recs {
				if r.Size > 0 {
					alts = append(alts, alt{"outer-size", [3]int64{int64(ri), 0, 0}}, alt{"outer-size", [3]int64{int64(ri), r.Size / 2, 0}}, alt{"outer-size", [3]int64{int64(ri), r.Size + 512, 0}})
				}
				alts = append(alts, alt{"outer-typeflag", [3]int64{int64(ri), '5', 0}}, alt{"outer-typeflag", [3]int64{int64(ri), '2', 0}})
			}
		}
		for _, a := range alts {
			tape, changed := alterTape(x, sw, a.kind, a.arg)
			if tape == nil {
				continue
			}
			st.Evals++
			st.Add("alter_"+a.kind, 1)
			if changed {
				st.Nontrivial(fmt.Sprintf("%s|%s|%v", c.Cfg, a.kind, a.arg))
			}
			if a.kind == "dup" {
				// replay of a validly signed record: executed (must not hang or crash),
				// its effect on the state is not forbidden by the property
				judgeTape(x, sw, tape, "dup")
				continue
			}
			if v := judgeTape(x, sw, tape, fmt.Sprintf("alteration %s%v", a.kind, a.arg)); v != nil {
				c.P["enumerate"], c.P["a0"], c.P["a1"], c.P["a2"] = 0, a.arg[0], a.arg[1], a.arg[2]
				c.S["alt"] = a.kind
				return v
			}
		}
		st.Evals--
		st.Sample(fmt.Sprintf("cfg=%s tape=%dB records=%d alterations=%d ops:\n%s", c.Cfg, len(sw.tape), len(sw.recs), len(alts), opsString(c.Ops)))
		return nil
	})
}

func alterTape(x *SeqCtx, sw *sigWorld, kind string, arg [3]int64) ([]byte, bool) {
	switch kind {
	case "flip":
		if arg[0] < 0 || arg[0] >= int64(len(sw.tape)) {
			return nil, false
		}
		t := append([]byte(nil), sw.tape...)
		t[arg[0]] ^= byte(arg[1])
		return t, true
	case "append-unsigned", "splice-unsigned":
		var buf bytes.Buffer
		tw := tar.NewWriter(&buf)
		body := []byte("forged content that nobody signed")
		tw.WriteHeader(&tar.Header{Typeflag: tar.TypeReg, Name: "/forged", Size: int64(len(body)), Mode: 0o644, Format: tar.FormatPAX})
		tw.Write(body)
		tw.Close()
		if kind == "append-unsigned" {
			return append(append([]byte(nil), sw.tape...), buf.Bytes()...), true
		}
		if len(sw.recs) < 2 {
			return nil, false
		}
		at := sw.recs[1].Off
		t := append([]byte(nil), sw.tape[:at]...)
		t = append(t, buf.Bytes()...)
		return append(t, sw.tape[at:]...), true
	}
	ri := int(arg[0])
	if ri >= len(sw.recs) {
		return nil, false
	}
	if kind == "append-global" {
		in, ok := sw.inner(x.St, sw.recs[ri].Hdr)
		if !ok {
			return nil, false
		}
		var emb tar.Header
		if json.Unmarshal([]byte(in.PAXRecords[paxEmbedded]), &emb) != nil || emb.Name == "" {
			return nil, false
		}
		recs := map[string]string{"path": emb.Name, "STFS.Version": "1"}
		switch arg[1] {
		case 0:
			recs["STFS.Action"] = "DELETE"
		case 1:
			recs["STFS.Action"], recs["STFS.ReplacesName"], recs["STFS.ReplacesContent"] = "UPDATE", emb.Name, "false"
			recs["path"] = "/forged-" + strings.TrimPrefix(emb.Name, "/")
		case 2:
			recs["STFS.Action"] = "CREATE"
			recs["path"] = "/forged-" + strings.TrimPrefix(emb.Name, "/")
		}
		var buf bytes.Buffer
		tw := tar.NewWriter(&buf)
		if err := tw.WriteHeader(&tar.Header{Typeflag: tar.TypeXGlobalHeader, Name: "pax_global_header", PAXRecords: recs, Format: tar.FormatPAX}); err != nil {
			return nil, false
		}
		tw.Close()
		return append(append([]byte(nil), sw.tape...), buf.Bytes()...), true
	}
	if kind == "outer-size" || kind == "outer-typeflag" {
		r := sw.recs[ri]
		if r.DataOff < 512 || r.DataOff > int64(len(sw.tape)) {
			return nil, false
		}
		t := append([]byte(nil), sw.tape...)
		blk := t[r.DataOff-512 : r.DataOff] // the ustar header block that precedes the content
		if kind == "outer-size" {
			copy(blk[124:136], fmt.Sprintf("%011o\x00", arg[1]))
		} else {
			blk[156] = byte(arg[1])
		}
		copy(blk[148:156], "        ")
		sum := 0
		for _, b := range blk {
			sum += int(b)
		}
		copy(blk[148:156], fmt.Sprintf("%06o\x00 ", sum))
		return t, !bytes.Equal(t, sw.tape)
	}
	changed := false
	out := rewriteTape(sw, func(i int, h *tar.Header, data []byte) (*tar.Header, []byte, bool) {
		if kind == "dup" {
			return h, data, true // handled below
		}
		if i != ri && !(kind == "swap-sig" && i == int(arg[1])) {
			return h, data, true
		}
		in, ok := sw.inner(x.St, h)
		if !ok {
			return h, data, true
		}
		switch kind {
		case "edit-keep-sig", "remove-sig", "garbage-sig", "notbase64-sig", "nonsig-packet", "reencode-sig":
			var emb tar.Header
			if json.Unmarshal([]byte(in.PAXRecords[paxEmbedded]), &emb) != nil {
				return h, data, true
			}
			if kind != "reencode-sig" {
				emb.Name = "/forged-" + emb.Name[1:]
				emb.Mode = 0o4777
				b, _ := json.Marshal(&emb)
				in.PAXRecords[paxEmbedded] = string(b)
			}
			switch kind {
			case "remove-sig":
				delete(in.PAXRecords, paxSig)
			case "garbage-sig":
				in.PAXRecords[paxSig] = base64.StdEncoding.EncodeToString([]byte("this is certainly not a valid signature, but it is valid base64"))
			case "notbase64-sig":
				in.PAXRecords[paxSig] = "%%% not base64 %%%"
			case "nonsig-packet":
				// a well-formed OpenPGP packet that is not a signature (literal data packet)
				in.PAXRecords[paxSig] = base64.StdEncoding.EncodeToString([]byte{0xCB, 0x06, 'b', 0x00, 0, 0, 0, 0})
			case "reencode-sig":
				raw, err := base64.StdEncoding.DecodeString(in.PAXRecords[paxSig])
				if err != nil {
					return h, data, true
				}
				in.PAXRecords[paxSig] = base64.StdEncoding.EncodeToString(raw) + "\n"
			}
			changed = true
			return sw.outer(x.St, in), data, true
		case "second-key":
			// re-sign an edited header with another signing identity
			var emb tar.Header
			if json.Unmarshal([]byte(in.PAXRecords[paxEmbedded]), &emb) != nil {
				return h, data, true
			}
			emb.Name = "/resigned-" + emb.Name[1:]
			_, _, _, otherID, err := Keys(1, sw.cfg)
			if err != nil {
				return h, data, true
			}
			nh := emb
			if err := signature.SignHeader(&nh, true, sw.cfg.Signature, otherID); err != nil {
				return h, data, true
			}
			nh.Size = h.Size
			changed = true
			return sw.outer(x.St, &nh), data, true
		case "swap-sig":
			other := int(arg[1])
			if i == ri {
				other = int(arg[1])
			} else {
				other = ri
			}
			oin, ok := sw.inner(x.St, sw.recs[other].Hdr)
			if !ok {
				return h, data, true
			}
			if in.PAXRecords[paxSig] != oin.PAXRecords[paxSig] {
				changed = true
			}
			in.PAXRecords[paxSig] = oin.PAXRecords[paxSig]
			return sw.outer(x.St, in), data, true
		}
		return h, data, true
	})
	if kind == "dup" {
		r := sw.recs[ri]
		end := r.DataOff + roundUp512(r.Size)
		t := append([]byte(nil), sw.tape[:end]...)
		t = append(t, sw.tape[r.Off:end]...)
		t = append(t, sw.tape[end:]...)
		x.Stats.Add("validly_signed_replays_not_judged", 1)
		return t, false
	}
	return out, changed
}

var _ = io.EOF

// readExact reads a file with one buffer of exactly the size Stat reports and then keeps
// reading until EOF or an error.
func readExact(fsys afero.Fs, name string) ([]byte, error) {
	f, err := fsys.Open(name)
	if err != nil {
		return nil, err
	}
	defer f.Close()
	fi, err := f.Stat()
	if err != nil {
		return nil, err
	}
	var out []byte
	size := int(fi.Size())
	if size > 0 {
		buf := make([]byte, size)
		n, err := io.ReadFull(f, buf)
		if n > 0 {
			out = append(out, buf[:n]...)
		}
		if err != nil && err != io.EOF && err != io.ErrUnexpectedEOF {
			return out, err
		}
	}
	small := make([]byte, 64)
	for i := 0; i < 1000; i++ {
		n, err := f.Read(small)
		if n > 0 && n <= len(small) {
			out = append(out, small[:n]...)
		}
		if err == io.EOF {
			return out, nil
		}
		if err != nil {
			return out, err
		}
	}
	return out, errors.New("read makes no progress")
}
