package sim

import (
	"crypto/sha256"
	"database/sql"
	"encoding/hex"
	"errors"
	"fmt"
	"io"
	"math/rand/v2"
	"os"
	"sort"
	"strings"
	"sync"
	"time"

	"github.com/pojntfx/stfs/pkg/config"
	"github.com/spf13/afero"
)

// Data describes generated content: reproducible from (Len, Kind, Tag).
type Data struct {
	Len  int    `json:"len"`
	Kind string `json:"kind"` // zeros | text | rand
	Tag  uint32 `json:"tag"`
}

func (d *Data) Bytes() []byte {
	if d == nil {
		return nil
	}
	b := make([]byte, d.Len)
	switch d.Kind {
	case "zeros":
	case "pad": // marker followed by 'a' padding: compresses to almost nothing
		for i := range b {
			b[i] = 'a'
		}
	case "hash": // '#' bytes without the marker: differs from the head of every other content
		for i := range b {
			b[i] = '#'
		}
		return b
	case "text":
		line := fmt.Sprintf("line %08x the quick brown fox jumps over the lazy dog\n", d.Tag)
		for i := range b {
			b[i] = line[i%len(line)]
		}
	default:
		r := rand.New(rand.NewPCG(uint64(d.Tag), 77))
		for i := range b {
			b[i] = byte(r.Uint32())
		}
	}
	// unique marker so that a read is attributable to one write
	m := fmt.Sprintf("<%08x>", d.Tag)
	copy(b, m)
	return b
}

// Op is one generated call. JSON form is the replay format.
type Op struct {
	K  string `json:"k"`
	P  string `json:"p,omitempty"`
	Q  string `json:"q,omitempty"`
	F  int    `json:"f,omitempty"`
	M  uint32 `json:"m,omitempty"`
	H  int    `json:"h,omitempty"`
	N  int    `json:"n,omitempty"`
	O  int64  `json:"o,omitempty"`
	W  int    `json:"w,omitempty"`
	D  *Data  `json:"d,omitempty"`
	U  int    `json:"u,omitempty"`
	G  int    `json:"g,omitempty"`
	T1 int64  `json:"t1,omitempty"`
	T2 int64  `json:"t2,omitempty"`
}

func (o Op) String() string {
	s := o.K
	if o.K[0] == 'h' && strings.HasPrefix(o.K, "h.") {
		s += fmt.Sprintf("#%d", o.H)
	}
	if o.P != "" {
		s += " " + fmt.Sprintf("%q", o.P)
	}
	if o.Q != "" {
		s += " " + fmt.Sprintf("%q", o.Q)
	}
	switch o.K {
	case "openfile":
		s += " " + flagString(o.F) + fmt.Sprintf(" %o ->#%d", o.M, o.H)
	case "create", "open":
		s += fmt.Sprintf(" ->#%d", o.H)
	case "mkdir", "mkdirall", "chmod":
		s += fmt.Sprintf(" %o", o.M)
	case "chown":
		s += fmt.Sprintf(" %d:%d", o.U, o.G)
	case "chtimes":
		s += fmt.Sprintf(" a=%d m=%d +%dns", o.T1, o.T2, o.N)
	case "h.read", "h.readdir", "h.readdirnames":
		s += fmt.Sprintf(" n=%d", o.N)
	case "h.readat":
		s += fmt.Sprintf(" n=%d off=%d", o.N, o.O)
	case "h.seek":
		s += fmt.Sprintf(" off=%d whence=%d", o.O, o.W)
	case "h.truncate":
		s += fmt.Sprintf(" size=%d", o.O)
	case "h.writeat":
		s += fmt.Sprintf(" off=%d", o.O)
	case "sleep":
		s += fmt.Sprintf(" %ds+%dns", o.O, o.N)
	}
	if o.D != nil {
		s += fmt.Sprintf(" data(%d,%s,%08x)", o.D.Len, o.D.Kind, o.D.Tag)
	}
	return s
}

func flagString(f int) string {
	var p []string
	switch f & (os.O_RDONLY | os.O_WRONLY | os.O_RDWR) {
	case os.O_RDONLY:
		p = append(p, "RDONLY")
	case os.O_WRONLY:
		p = append(p, "WRONLY")
	case os.O_RDWR:
		p = append(p, "RDWR")
	}
	for _, x := range []struct {
		f int
		n string
	}{{os.O_CREATE, "CREATE"}, {os.O_EXCL, "EXCL"}, {os.O_TRUNC, "TRUNC"}, {os.O_APPEND, "APPEND"}} {
		if f&x.f != 0 {
			p = append(p, x.n)
		}
	}
	return strings.Join(p, "|")
}

// Info is the projection of os.FileInfo that properties talk about.
type Info struct {
	Name  string `json:"name"`
	Kind  string `json:"kind"` // dir | file | link | other
	Size  int64  `json:"size"`
	Perm  uint32 `json:"perm"`
	Uid   int    `json:"uid"`
	Gid   int    `json:"gid"`
	Mtime int64  `json:"mtime"` // unix nanoseconds
}

func infoOf(fi os.FileInfo) *Info {
	if fi == nil {
		return nil
	}
	in := &Info{Name: fi.Name(), Size: fi.Size(), Perm: uint32(fi.Mode().Perm()), Mtime: fi.ModTime().UnixNano()}
	switch {
	case fi.IsDir():
		in.Kind = "dir"
	case fi.Mode()&os.ModeSymlink != 0:
		in.Kind = "link"
	case fi.Mode().IsRegular():
		in.Kind = "file"
	default:
		in.Kind = "other"
	}
	in.Uid, in.Gid = -1, -1
	if sys := fi.Sys(); sys != nil {
		if u, g, ok := sysOwner(sys); ok {
			in.Uid, in.Gid = u, g
		}
	}
	return in
}

// Res is the observable outcome of one call.
type Res struct {
	// Contract: set when the call broke the io.Reader / io.Writer contract (0 <= n <= len(p))
	Contract string   `json:"contract,omitempty"`
	Class    string   `json:"class"`
	Err      string   `json:"err,omitempty"`
	N        int64    `json:"n,omitempty"`
	Data     []byte   `json:"-"`
	Sum      string   `json:"sum,omitempty"`
	EOF      bool     `json:"eof,omitempty"`
	Names    []string `json:"names,omitempty"`
	Info     *Info    `json:"info,omitempty"`
	Infos    []*Info  `json:"infos,omitempty"`
	Str      string   `json:"str,omitempty"`
}

func (r Res) OK() bool { return r.Class == "ok" }

func classify(err error) string {
	switch {
	case err == nil:
		return "ok"
	case errors.Is(err, config.ErrDirectoryNotEmpty):
		return "notempty"
	case errors.Is(err, os.ErrNotExist):
		return "notexist"
	case errors.Is(err, os.ErrExist):
		return "exist"
	case errors.Is(err, os.ErrPermission):
		return "perm"
	case errors.Is(err, config.ErrIsDirectory):
		return "isdir"
	case errors.Is(err, os.ErrInvalid):
		return "invalid"
	case errors.Is(err, config.ErrIsFile):
		return "isfile"
	case errors.Is(err, sql.ErrNoRows):
		return "norows"
	case errors.Is(err, io.EOF):
		return "eof"
	}
	return "other"
}

// ioContract notes a count outside 0..max: consumers such as io.ReadAll,
// bytes.Buffer.ReadFrom and bufio panic on a negative count.
func ioContract(r *Res, what string, n, max int) {
	if n < 0 || n > max {
		r.Contract = fmt.Sprintf("%s returned n=%d for %d bytes (io.Reader/io.Writer require 0 <= n <= len(p); io.ReadAll and bytes.Buffer.ReadFrom panic on a negative count)", what, n, max)
	}
}

func mkRes(err error) Res {
	r := Res{Class: classify(err)}
	if err != nil {
		r.Err = err.Error()
	}
	return r
}

func sumOf(b []byte) string {
	h := sha256.Sum256(b)
	return fmt.Sprintf("%d:%s", len(b), hex.EncodeToString(h[:8]))
}

// Exec executes ops against one filesystem (any afero.Fs; symlink calls need
// the Symlinker/LinkReader extensions).
type Exec struct {
	FS      afero.Fs
	H       map[int]afero.File
	Sched   *Sched
	MaxRead int
	// Shared, if set, holds handles with ids >= SharedBase: several clients
	// (goroutines) use the same open file
	Shared *SharedHandles
}

const SharedBase = 900

type SharedHandles struct {
	mu sync.Mutex
	H  map[int]afero.File
}

func (e *Exec) getHandle(h int) (afero.File, bool) {
	if e.Shared != nil && h >= SharedBase {
		e.Shared.mu.Lock()
		defer e.Shared.mu.Unlock()
		f, ok := e.Shared.H[h]
		return f, ok
	}
	f, ok := e.H[h]
	return f, ok
}

func (e *Exec) dropHandle(h int) {
	if e.Shared != nil && h >= SharedBase {
		e.Shared.mu.Lock()
		delete(e.Shared.H, h)
		e.Shared.mu.Unlock()
		return
	}
	delete(e.H, h)
}

func NewExec(fs afero.Fs, s *Sched) *Exec {
	return &Exec{FS: fs, H: map[int]afero.File{}, Sched: s}
}

func (e *Exec) CloseAll() {
	ks := []int{}
	for k := range e.H {
		ks = append(ks, k)
	}
	sort.Ints(ks)
	for _, k := range ks {
		e.H[k].Close()
		delete(e.H, k)
	}
}

func (e *Exec) Do(o Op) (res Res) {
	fs := e.FS
	needH := func() (afero.File, bool) {
		f, ok := e.getHandle(o.H)
		if !ok {
			res = Res{Class: "nohandle"}
		}
		return f, ok
	}
	switch o.K {
	case "sleep":
		d := time.Duration(o.O)*time.Second + time.Duration(o.N)
		if e.Sched != nil {
			e.Sched.Sleep(d)
		} else {
			time.Sleep(d)
		}
		return Res{Class: "ok"}
	case "create":
		f, err := fs.Create(o.P)
		if err == nil {
			e.putHandle(o.H, f)
		}
		return mkRes(err)
	case "open":
		f, err := fs.Open(o.P)
		if err == nil {
			e.putHandle(o.H, f)
		}
		return mkRes(err)
	case "openfile":
		f, err := fs.OpenFile(o.P, o.F, os.FileMode(o.M))
		if err == nil {
			e.putHandle(o.H, f)
		}
		return mkRes(err)
	case "mkdir":
		return mkRes(fs.Mkdir(o.P, os.FileMode(o.M)))
	case "mkdirall":
		return mkRes(fs.MkdirAll(o.P, os.FileMode(o.M)))
	case "remove":
		return mkRes(fs.Remove(o.P))
	case "removeall":
		return mkRes(fs.RemoveAll(o.P))
	case "rename":
		return mkRes(fs.Rename(o.P, o.Q))
	case "chmod":
		return mkRes(fs.Chmod(o.P, os.FileMode(o.M)))
	case "chown":
		return mkRes(fs.Chown(o.P, o.U, o.G))
	case "chtimes":
		return mkRes(fs.Chtimes(o.P, time.Unix(o.T1, int64(o.N)), time.Unix(o.T2, int64(o.N))))
	case "stat":
		fi, err := fs.Stat(o.P)
		r := mkRes(err)
		if err == nil {
			r.Info = infoOf(fi)
		}
		return r
	case "lstat":
		l, ok := fs.(afero.Lstater)
		if !ok {
			return Res{Class: "unsupported"}
		}
		fi, _, err := l.LstatIfPossible(o.P)
		r := mkRes(err)
		if err == nil {
			r.Info = infoOf(fi)
		}
		return r
	case "symlink":
		l, ok := fs.(afero.Linker)
		if !ok {
			return Res{Class: "unsupported"}
		}
		return mkRes(l.SymlinkIfPossible(o.P, o.Q))
	case "readlink":
		l, ok := fs.(afero.LinkReader)
		if !ok {
			return Res{Class: "unsupported"}
		}
		s, err := l.ReadlinkIfPossible(o.P)
		r := mkRes(err)
		r.Str = s
		return r
	case "writefile": // create + write + close as one composite call
		f, err := fs.Create(o.P)
		if err != nil {
			return mkRes(err)
		}
		b := o.D.Bytes()
		if len(b) > 0 {
			if _, err := f.Write(b); err != nil {
				f.Close()
				return mkRes(err)
			}
		}
		return mkRes(f.Close())
	case "readfile":
		lastContract = ""
		b, err := ReadAll(fs, o.P)
		r := mkRes(err)
		r.Data, r.Sum, r.N = b, sumOf(b), int64(len(b))
		r.Contract, lastContract = lastContract, ""
		return r
	case "h.close":
		f, ok := needH()
		if !ok {
			return
		}
		e.dropHandle(o.H)
		return mkRes(f.Close())
	case "h.sync":
		f, ok := needH()
		if !ok {
			return
		}
		return mkRes(f.Sync())
	case "h.write":
		f, ok := needH()
		if !ok {
			return
		}
		n, err := f.Write(o.D.Bytes())
		r := mkRes(err)
		r.N = int64(n)
		ioContract(&r, "Write", n, o.D.Len)
		return r
	case "h.writestring":
		f, ok := needH()
		if !ok {
			return
		}
		n, err := f.WriteString(string(o.D.Bytes()))
		r := mkRes(err)
		r.N = int64(n)
		ioContract(&r, "WriteString", n, o.D.Len)
		return r
	case "h.writeat":
		f, ok := needH()
		if !ok {
			return
		}
		n, err := f.WriteAt(o.D.Bytes(), o.O)
		r := mkRes(err)
		r.N = int64(n)
		ioContract(&r, "WriteAt", n, o.D.Len)
		return r
	case "h.read":
		f, ok := needH()
		if !ok {
			return
		}
		buf := make([]byte, o.N)
		n, err := f.Read(buf)
		r := Res{N: int64(n)}
		if err == io.EOF {
			r.EOF = true
			r.Class = "ok"
		} else {
			r = mkRes(err)
			r.N = int64(n)
		}
		if n > 0 && n <= len(buf) {
			r.Data = buf[:n]
		}
		ioContract(&r, "Read", n, len(buf))
		return r
	case "h.readat":
		f, ok := needH()
		if !ok {
			return
		}
		buf := make([]byte, o.N)
		n, err := f.ReadAt(buf, o.O)
		r := Res{N: int64(n)}
		if err == io.EOF {
			r.EOF = true
			r.Class = "ok"
		} else {
			r = mkRes(err)
			r.N = int64(n)
		}
		if n > 0 && n <= len(buf) {
			r.Data = buf[:n]
		}
		ioContract(&r, "ReadAt", n, len(buf))
		return r
	case "h.seek":
		f, ok := needH()
		if !ok {
			return
		}
		n, err := f.Seek(o.O, o.W)
		r := mkRes(err)
		r.N = n
		return r
	case "h.truncate":
		f, ok := needH()
		if !ok {
			return
		}
		return mkRes(f.Truncate(o.O))
	case "h.stat":
		f, ok := needH()
		if !ok {
			return
		}
		fi, err := f.Stat()
		r := mkRes(err)
		if err == nil {
			r.Info = infoOf(fi)
		}
		return r
	case "h.name":
		f, ok := needH()
		if !ok {
			return
		}
		return Res{Class: "ok", Str: f.Name()}
	case "h.readdir":
		f, ok := needH()
		if !ok {
			return
		}
		fis, err := f.Readdir(o.N)
		r := mkRes(err)
		for _, fi := range fis {
			r.Infos = append(r.Infos, infoOf(fi))
			r.Names = append(r.Names, fi.Name())
		}
		return r
	case "h.readdirnames":
		f, ok := needH()
		if !ok {
			return
		}
		ns, err := f.Readdirnames(o.N)
		r := mkRes(err)
		r.Names = ns
		return r
	}
	return Res{Class: "unknown-op"}
}

func (e *Exec) putHandle(h int, f afero.File) {
	if e.Shared != nil && h >= SharedBase {
		e.Shared.mu.Lock()
		old, ok := e.Shared.H[h]
		e.Shared.H[h] = f
		e.Shared.mu.Unlock()
		if ok {
			old.Close()
		}
		return
	}
	if old, ok := e.H[h]; ok {
		old.Close()
	}
	e.H[h] = f
}

// ReadAll opens, reads to EOF and closes. The whole stream is consumed so the
// restore goroutine behind the handle finishes (see known finding D9).
// lastContract: the last io.Reader contract violation seen by ReadAll (per process; read and reset by Exec)
var lastContract string

func ReadAll(fs afero.Fs, name string) ([]byte, error) {
	f, err := fs.Open(name)
	if err != nil {
		return nil, err
	}
	var out []byte
	buf := make([]byte, 1<<16)
	for i := 0; ; i++ {
		n, err := f.Read(buf)
		if n > 0 && n <= len(buf) {
			out = append(out, buf[:n]...)
		}
		if n < 0 || n > len(buf) {
			lastContract = fmt.Sprintf("Read returned n=%d for %d bytes (err=%v)", n, len(buf), err)
		}
		if err == io.EOF {
			break
		}
		if err != nil {
			f.Close()
			return out, err
		}
		if n == 0 && i > 1000 {
			f.Close()
			return out, errors.New("read makes no progress")
		}
		if len(out) > 64<<20 {
			f.Close()
			return out, errors.New("read returns more than 64 MiB")
		}
	}
	return out, f.Close()
}
