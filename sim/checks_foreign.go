package sim

import (
	"archive/tar"
	"bytes"
	"fmt"
	"math/rand/v2"
	"os"
	"path"
	"sort"
	"strings"
	"testing"
	"time"

	"github.com/pojntfx/stfs/pkg/cache"
	"github.com/spf13/afero"
)

type member struct {
	Path string // clean path relative to the archive's top directory ("" = top itself)
	Dir  bool
	Data *Data
	Mode int64
}

// genForeignTree generates a directory tree; parents always precede children.
func genForeignTree(r *rand.Rand) []member {
	ms := []member{{Path: "", Dir: true, Mode: 0o755}}
	dirs := []string{""}
	comps := []string{"d", "e", "src", "a b", "x.y", "data", strings.Repeat("n", 60), "ü"}
	if r.Float64() < 0.4 {
		// hidden names next to their undotted twins: only a PREFIX './' or '/' is a root spelling
		comps = append(comps, ".h", "h", "..x", "x", ".d", ".e")
	}
	if r.Float64() < 0.2 {
		comps = append(comps, strings.Repeat("L", 120)) // PAX / GNU long-name territory
	}
	tag := uint32(9000)
	n := 1 + r.IntN(9)
	used := map[string]bool{"": true}
	for i := 0; i < n; i++ {
		par := dirs[r.IntN(len(dirs))]
		if strings.Count(par, "/") >= 3 {
			par = ""
		}
		p := path.Join(par, comps[r.IntN(len(comps))])
		if used[p] {
			p = fmt.Sprintf("%s%d", p, i)
		}
		used[p] = true
		if r.Float64() < 0.4 {
			ms = append(ms, member{Path: p, Dir: true, Mode: 0o755})
			dirs = append(dirs, p)
		} else {
			tag++
			ms = append(ms, member{Path: p, Data: &Data{Len: []int{0, 1, 100, 511, 512, 513, 3000, 11000}[r.IntN(8)], Kind: []string{"text", "rand"}[r.IntN(2)], Tag: tag}, Mode: 0o644})
		}
	}
	return ms
}

// writeForeignTar serialises the tree with archive/tar only (no STFS code).
func writeForeignTar(ms []member, format tar.Format, style string, mtime time.Time) ([]byte, error) {
	var buf bytes.Buffer
	tw := tar.NewWriter(&buf)
	name := func(m member) string {
		var n string
		switch style {
		case "dot":
			n = "./" + m.Path
		case "abs":
			n = "/" + m.Path
		case "abstop":
			n = path.Join("/top", m.Path) // as `tar -P -cf drive.tar /top` writes it
		default:
			n = path.Join("top", m.Path)
		}
		if m.Dir && !strings.HasSuffix(n, "/") {
			n += "/"
		}
		return n
	}
	for _, m := range ms {
		h := &tar.Header{Name: name(m), Mode: m.Mode, ModTime: mtime, Format: format, Uid: 1000, Gid: 1000, Uname: "u", Gname: "g"}
		var b []byte
		if m.Dir {
			h.Typeflag = tar.TypeDir
		} else {
			h.Typeflag = tar.TypeReg
			b = m.Data.Bytes()
			h.Size = int64(len(b))
		}
		if err := tw.WriteHeader(h); err != nil {
			return nil, err
		}
		if _, err := tw.Write(b); err != nil {
			return nil, err
		}
	}
	if err := tw.Close(); err != nil {
		return nil, err
	}
	return buf.Bytes(), nil
}

func init() {
	Register(&Check{
		ID: "C17", Level: "exploration", Tech: "deterministic simulation: a second, independent writer (archive/tar) produces the medium; the documented composition is opened over it on the simulated drive, followed by further calls and a rebuild restart",
		Rule:      "generated directory trees (depth <= 4, 1-10 members, names up to 120 bytes incl. spaces/dots/non-ASCII, contents 0..11000 bytes) are written by archive/tar as USTAR, PAX or GNU archives in four root styles ('./', '/', named top directory relative and absolute) and placed on the simulated drive; NewSTFS + Initialize + cache.NewCacheFilesystem(stfs, root, none) at every record size; oracle: every member is listed under its directory exactly once with the right kind, every regular member reads back byte-identical, Stat of '/p', 'p' and './p' agree, then (half of the runs) original members are removed, removed recursively, renamed and chmod-ed, files and directories are added through the filesystem, coexist with the original members and the whole tree survives an index rebuild; non-trivial = at least 3 members incl. a nested one; distinct by (format, style, record size, tree shape)",
		QuickRuns: 8000, QuickSecs: 60, ThoroughRuns: 15000, ThoroughSecs: 1500,
		Assumptions: []string{"the archive contains an entry for its top-level directory (as the property states)", "plain pipeline (a foreign archive is neither compressed, encrypted nor signed by STFS)"},
		Gen: func(r *rand.Rand, tier string, relax Relax) *Case {
			c := &Case{Cfg: PlainConfig(recordSizes[r.IntN(len(recordSizes))]), P: map[string]int64{}, S: map[string]string{}}
			c.S["format"] = []string{"ustar", "pax", "gnu"}[r.IntN(3)]
			c.S["style"] = []string{"dot", "abs", "top", "abstop"}[r.IntN(4)]
			c.P["treeseed"] = int64(r.Uint32())
			c.P["writes"] = int64(r.IntN(4))
			if r.IntN(2) == 0 {
				c.P["mods"] = int64(1 + r.IntN(15))
			}
			return c
		},
		Eval: evalC17,
	})
}

func evalC17(t *testing.T, c *Case, st *Stats, relax Relax) *Violation {
	return RunSeq(t, c, st, relax, seqOpts{NoOpen: true}, func(x *SeqCtx) *Violation {
		tr := rand.New(rand.NewPCG(uint64(c.Param("treeseed", 1)), 17))
		ms := genForeignTree(tr)
		format := map[string]tar.Format{"ustar": tar.FormatUSTAR, "pax": tar.FormatPAX, "gnu": tar.FormatGNU}[c.S["format"]]
		b, err := writeForeignTar(ms, format, c.S["style"], time.Unix(1500000000, 0))
		if err != nil {
			if c.S["format"] == "ustar" {
				st.Add("tree_not_encodable_in_ustar", 1)
				return nil // e.g. a 120-byte component does not fit USTAR: not a case
			}
			return &Violation{Prop: c.Prop, Oracle: "harness", Detail: err.Error()}
		}
		if err := os.WriteFile(x.W.Drive, b, 0o600); err != nil {
			return &Violation{Prop: c.Prop, Oracle: "harness", Detail: err.Error()}
		}
		where := fmt.Sprintf("%s archive, %s root style, record size %d, %d members", c.S["format"], c.S["style"], c.Cfg.RecordSize, len(ms))
		mk := func(oracle, detail string) *Violation {
			return &Violation{Prop: c.Prop, Oracle: oracle, Detail: where + ": " + detail}
		}
		stk, err := x.W.Open(OpenOpts{})
		if stk != nil {
			defer stk.Close()
		}
		if err != nil {
			return mk("open-fails", err.Error())
		}
		after, _ := os.ReadFile(x.W.Drive)
		if !bytes.Equal(after, b) {
			return mk("open-changes-archive", fmt.Sprintf("the archive had %d bytes, after opening %d", len(b), len(after)))
		}
		fsys, err := cache.NewCacheFilesystem(stk.FS, stk.Root, "", 0, "")
		if err != nil {
			return mk("composition-fails", err.Error())
		}
		check := func(fsys afero.Fs, extra map[string][]byte, phase string) *Violation {
			obs, probs := Observe(fsys, "/", ObsOpts{})
			if len(probs) > 0 {
				return mk("walk-problem-"+phase, strings.Join(probs, "; "))
			}
			want := map[string]member{}
			for _, m := range ms {
				want[path.Clean("/"+m.Path)] = m
			}
			for _, p := range sortedKeys(want) {
				m := want[p]
				n, ok := obs[p]
				if !ok {
					return mk("member-not-listed-"+phase, fmt.Sprintf("%q is not reachable by listing from the root (root=%q); listed: %v", p, stk.Root, keysOf(obs)))
				}
				if m.Dir != (n.Kind == "dir") {
					return mk("member-kind-"+phase, fmt.Sprintf("%q: dir=%v listed as %s", p, m.Dir, n.Kind))
				}
				if !m.Dir {
					if n.Err != "" {
						return mk("member-unreadable-"+phase, fmt.Sprintf("%q: %s", p, n.Err))
					}
					if n.Sum != sumOf(m.Data.Bytes()) {
						return mk("member-content-"+phase, fmt.Sprintf("%q: archived %s, read %s", p, sumOf(m.Data.Bytes()), n.Sum))
					}
					if n.Size != int64(m.Data.Len) {
						return mk("member-size-"+phase, fmt.Sprintf("%q: archived with %d bytes (and reads back as such), Stat reports %d", p, m.Data.Len, n.Size))
					}
				}
			}
			for p, n := range obs {
				if _, ok := want[p]; ok {
					continue
				}
				if b, ok := extra[p]; ok {
					if n.Kind == "file" && n.Sum != sumOf(b) {
						return mk("added-file-content-"+phase, fmt.Sprintf("%q: wrote %s, read %s (%s)", p, sumOf(b), n.Sum, n.Err))
					}
					continue
				}
				return mk("unexpected-entry-"+phase, fmt.Sprintf("%q is listed but is neither a member nor was it added", p))
			}
			for p := range extra {
				if _, ok := obs[p]; !ok {
					return mk("added-entry-missing-"+phase, p)
				}
			}
			// spellings
			for _, p := range sortedKeys(want) {
				m := want[p]
				if p == "/" {
					continue
				}
				var got []string
				for _, sp := range []string{p, p[1:], "./" + p[1:]} {
					fi, err := fsys.Stat(sp)
					if err != nil {
						got = append(got, sp+"=>"+classify(err))
						continue
					}
					in := infoOf(fi)
					got = append(got, fmt.Sprintf("%s=>%s/%d/%o", sp, in.Kind, in.Size, in.Perm))
				}
				a := got[0][strings.Index(got[0], "=>"):]
				for _, g := range got[1:] {
					if g[strings.Index(g, "=>"):] != a {
						return mk("spellings-disagree-"+phase, strings.Join(got, "  "))
					}
				}
				if strings.Contains(a, "=>notexist") || strings.Contains(a, "=>other") {
					return mk("member-not-statable-"+phase, strings.Join(got, "  "))
				}
				_ = m
			}
			return nil
		}
		if v := check(fsys, nil, "open"); v != nil {
			return v
		}
		// further calls on ORIGINAL members: remove a file, remove a directory tree, rename and
		// chmod a file; each must succeed and the tree must reflect it (live and after the rebuild)
		ex := NewExec(fsys, x.S)
		if mods := int(c.Param("mods", 0)); mods != 0 {
			pickMember := func(dir bool) int {
				var idx []int
				for i, m := range ms {
					if m.Path != "" && m.Dir == dir {
						idx = append(idx, i)
					}
				}
				if len(idx) == 0 {
					return -1
				}
				return idx[tr.IntN(len(idx))]
			}
			var did []string
			if mods&1 != 0 {
				if i := pickMember(false); i >= 0 {
					p := path.Clean("/" + ms[i].Path)
					if r := ex.Do(Op{K: "remove", P: p}); r.Class != "ok" {
						return mk("member-call-fails", fmt.Sprintf("remove %q: %s %s", p, r.Class, r.Err))
					}
					ms = append(ms[:i:i], ms[i+1:]...)
					did = append(did, "remove "+p)
				}
			}
			if mods&2 != 0 {
				if i := pickMember(true); i >= 0 {
					p := path.Clean("/" + ms[i].Path)
					if r := ex.Do(Op{K: "removeall", P: p}); r.Class != "ok" {
						return mk("member-call-fails", fmt.Sprintf("removeall %q: %s %s", p, r.Class, r.Err))
					}
					var keep []member
					for _, m := range ms {
						q := path.Clean("/" + m.Path)
						if q == p || strings.HasPrefix(q, p+"/") {
							continue
						}
						keep = append(keep, m)
					}
					ms = keep
					did = append(did, "removeall "+p)
				}
			}
			if mods&4 != 0 {
				if i := pickMember(false); i >= 0 {
					p := path.Clean("/" + ms[i].Path)
					q := path.Join(path.Dir(p), "renamed-member")
					if r := ex.Do(Op{K: "rename", P: p, Q: q}); r.Class != "ok" {
						return mk("member-call-fails", fmt.Sprintf("rename %q %q: %s %s", p, q, r.Class, r.Err))
					}
					ms[i].Path = strings.TrimPrefix(q, "/")
					did = append(did, "rename "+p)
				}
			}
			if mods&8 != 0 {
				if i := pickMember(false); i >= 0 {
					p := path.Clean("/" + ms[i].Path)
					if r := ex.Do(Op{K: "chmod", P: p, M: 0o600}); r.Class != "ok" {
						return mk("member-call-fails", fmt.Sprintf("chmod %q: %s %s", p, r.Class, r.Err))
					}
					did = append(did, "chmod "+p)
				}
			}
			if len(did) > 0 {
				st.Add("calls_on_original_members", int64(len(did)))
				where += "; then " + strings.Join(did, ", ")
				if v := check(fsys, nil, "after-member-calls"); v != nil {
					return v
				}
			}
		}
		// add entries through the filesystem
		extra := map[string][]byte{}
		nw := int(c.Param("writes", 0))
		for i := 0; i < nw; i++ {
			par := "/"
			for _, m := range ms {
				if m.Dir && tr.Float64() < 0.3 {
					par = path.Clean("/" + m.Path)
				}
			}
			if i%2 == 0 {
				d := &Data{Len: 200 + i*700, Kind: "text", Tag: uint32(7000 + i)}
				p := path.Join(par, fmt.Sprintf("added%d.txt", i))
				if r := ex.Do(Op{K: "writefile", P: p, D: d}); r.Class != "ok" {
					return mk("write-after-open-fails", fmt.Sprintf("writefile %q: %s %s", p, r.Class, r.Err))
				}
				extra[p] = d.Bytes()
			} else {
				p := path.Join(par, fmt.Sprintf("addeddir%d", i))
				if r := ex.Do(Op{K: "mkdir", P: p, M: 0o755}); r.Class != "ok" {
					return mk("write-after-open-fails", fmt.Sprintf("mkdir %q: %s %s", p, r.Class, r.Err))
				}
				extra[p] = nil
			}
		}
		if nw > 0 {
			if v := check(fsys, extra, "after-writes"); v != nil {
				return v
			}
		}
		// rebuild
		stk.Close()
		rb, err := x.W.Open(OpenOpts{Index: x.W.NewIndexPath()})
		if rb != nil {
			defer rb.Close()
		}
		if err != nil {
			return mk("rebuild-fails", err.Error())
		}
		rfs, err := cache.NewCacheFilesystem(rb.FS, rb.Root, "", 0, "")
		if err != nil {
			return mk("composition-fails", err.Error())
		}
		if v := check(rfs, extra, "after-rebuild"); v != nil {
			return v
		}
		nested := false
		for _, m := range ms {
			if strings.Contains(m.Path, "/") {
				nested = true
			}
		}
		if len(ms) >= 3 && nested {
			var shape []string
			for _, m := range ms {
				shape = append(shape, fmt.Sprintf("%d%v", strings.Count(m.Path, "/"), m.Dir))
			}
			st.Nontrivial(fmt.Sprintf("%s|%s|%d|%s", c.S["format"], c.S["style"], c.Cfg.RecordSize, strings.Join(shape, ",")))
			st.Sample(fmt.Sprintf("%s; members: %v; %d entries added", where, memberNames(ms), nw))
		}
		return nil
	})
}

func memberNames(ms []member) []string {
	var out []string
	for _, m := range ms {
		n := m.Path
		if m.Dir {
			n += "/"
		}
		if len(n) > 40 {
			n = n[:37] + "..."
		}
		out = append(out, n)
	}
	return out
}

func keysOf(t Tree) []string {
	var ks []string
	for k := range t {
		ks = append(ks, k)
	}
	sort.Strings(ks)
	return ks
}
