package sim

import (
	"archive/tar"
	"context"
	"fmt"
	"os"
	"path/filepath"

	"github.com/pojntfx/stfs/pkg/config"
	"github.com/pojntfx/stfs/pkg/encryption"
	"github.com/pojntfx/stfs/pkg/recovery"
	"github.com/pojntfx/stfs/pkg/signature"
)

// Reindex runs recovery.Index over the stack's whole drive into the stack's
// index with the real decrypt/verify callbacks (what `stfs recovery index` and
// Initialize do). onHeader receives every header the indexer accepted.
func Reindex(st *Stack, overwrite bool, onHeader func(*config.Header)) error {
	reader, err := st.Backend.GetReader()
	if err != nil {
		return fmt.Errorf("open drive: %w", err)
	}
	defer st.Backend.CloseReader()
	pipes := st.Read.GetPipes()
	crypto := st.Read.GetCrypto()
	return recovery.Index(reader, st.Backend.MagneticTapeIO, st.Meta, pipes, crypto,
		0, 0, overwrite, false, 0,
		func(hdr *tar.Header, i int) error {
			return encryption.DecryptHeader(hdr, pipes.Encryption, crypto.Identity)
		},
		func(hdr *tar.Header, isRegular bool) error {
			return signature.VerifyHeader(hdr, isRegular, pipes.Signature, crypto.Recipient)
		},
		onHeader,
	)
}

// QueryTape lists the (decrypted, verified) headers of all records with their
// positions, using recovery.Query.
func QueryTape(st *Stack) ([]*config.Header, error) {
	reader, err := st.Backend.GetReader()
	if err != nil {
		return nil, err
	}
	defer st.Backend.CloseReader()
	var out []*config.Header
	_, err = recovery.Query(reader, st.Backend.MagneticTapeIO, st.Read.GetPipes(), st.Read.GetCrypto(), 0, 0, func(h *config.Header) {
		c := *h
		out = append(out, &c)
	})
	return out, err
}

// PrefixDrive writes the first n bytes of the world's tape to a new drive file.
func (w *World) PrefixDrive(tape []byte, n int) (string, error) {
	w.nidx++
	p := filepath.Join(w.Dir, fmt.Sprintf("drive-%d.tar", w.nidx))
	if n > len(tape) {
		n = len(tape)
	}
	return p, os.WriteFile(p, tape[:n], 0o600)
}

// RebuildObserve rebuilds an index from scratch over the given drive file with
// recovery.Index (not Initialize, which appends a root when the rebuild fails)
// and observes the result without initializing. Returns the indexer's error.
func RebuildObserve(w *World, drive string, extra []string) (Tree, []string, error, error) {
	st, err := w.Open(OpenOpts{Drive: drive, Index: w.NewIndexPath(), NoInit: true})
	if st != nil {
		defer st.Close()
	}
	if err != nil {
		return nil, nil, nil, err
	}
	ierr := Reindex(st, true, nil)
	t, probs := Observe(st.FS, "/", ObsOpts{Extra: extra})
	return t, probs, ierr, nil
}

func contextBG() context.Context { return context.Background() }
