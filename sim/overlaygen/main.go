// overlaygen rewrites, for the *current* working tree of the repository, the
// few source files that need a simulator seam and emits a `go build -overlay`
// JSON. Nothing is written under the repository.
//
//	sync.Mutex            -> simhook.Mutex            (pkg/fs, pkg/operations, pkg/tape, pkg/persisters)
//	go f(...)             -> simhook.Go(func(){f(...)}) (same packages)
//	os.Stat/OpenFile/Open -> simhook.Os*              (pkg/tape)
//	+ pkg/simhook, + pkg/persisters/zz_verif_close.go
package main

import (
	"bytes"
	"encoding/json"
	"flag"
	"fmt"
	"go/ast"
	"go/format"
	"go/parser"
	"go/token"
	"os"
	"path/filepath"
	"sort"
	"strconv"
	"strings"
)

const simhookPath = "github.com/pojntfx/stfs/pkg/simhook"

func main() {
	repo := flag.String("repo", "/repo", "repository root")
	out := flag.String("out", "", "output directory")
	src := flag.String("src", "", "directory with overlaysrc")
	flag.Parse()
	if *out == "" || *src == "" {
		fmt.Fprintln(os.Stderr, "usage: overlaygen -repo R -out O -src S")
		os.Exit(2)
	}
	if err := run(*repo, *out, *src); err != nil {
		fmt.Fprintln(os.Stderr, "overlaygen:", err)
		os.Exit(2)
	}
}

type stats struct {
	Mutex, Go, Os, Pipe int
	Files               []string
}

func run(repo, out, src string) error {
	if err := os.RemoveAll(out); err != nil {
		return err
	}
	if err := os.MkdirAll(out, 0o755); err != nil {
		return err
	}
	replace := map[string]string{}
	st := &stats{}
	pkgs := []string{"pkg/fs", "pkg/operations", "pkg/tape", "pkg/persisters"}
	for _, p := range pkgs {
		dir := filepath.Join(repo, p)
		ents, err := os.ReadDir(dir)
		if err != nil {
			return err
		}
		for _, e := range ents {
			n := e.Name()
			if e.IsDir() || !strings.HasSuffix(n, ".go") || strings.HasSuffix(n, "_test.go") {
				continue
			}
			path := filepath.Join(dir, n)
			b, changed, err := rewrite(path, p == "pkg/tape", st)
			if err != nil {
				return fmt.Errorf("%s: %w", path, err)
			}
			if !changed {
				continue
			}
			dst := filepath.Join(out, strings.ReplaceAll(p, "/", "_")+"_"+n)
			if err := os.WriteFile(dst, b, 0o644); err != nil {
				return err
			}
			replace[path] = dst
			st.Files = append(st.Files, path)
		}
	}
	abs := func(p string) string { a, _ := filepath.Abs(p); return a }
	replace[filepath.Join(repo, "pkg/simhook/simhook.go")] = abs(filepath.Join(src, "simhook/simhook.go"))
	closeFile := filepath.Join(repo, "pkg/persisters/zz_verif_close.go")
	if _, err := os.Stat(closeFile); err == nil {
		return fmt.Errorf("%s exists in the repository", closeFile)
	}
	replace[closeFile] = abs(filepath.Join(src, "persisters/zz_verif_close.go"))
	ov := map[string]any{"Replace": replace}
	jb, _ := json.MarshalIndent(ov, "", " ")
	if err := os.WriteFile(filepath.Join(out, "overlay.json"), jb, 0o644); err != nil {
		return err
	}
	sort.Strings(st.Files)
	sb, _ := json.MarshalIndent(st, "", " ")
	if err := os.WriteFile(filepath.Join(out, "stats.json"), sb, 0o644); err != nil {
		return err
	}
	if st.Mutex == 0 {
		return fmt.Errorf("instrumentation found nothing to rewrite for some seam: %+v", *st)
	}
	return nil
}

func rewrite(path string, tape bool, st *stats) ([]byte, bool, error) {
	fset := token.NewFileSet()
	f, err := parser.ParseFile(fset, path, nil, parser.ParseComments)
	if err != nil {
		return nil, false, err
	}
	// local names of the imports we care about
	syncName, osName, ioName := "", "", ""
	for _, im := range f.Imports {
		p, _ := strconv.Unquote(im.Path.Value)
		name := filepath.Base(p)
		if im.Name != nil {
			name = im.Name.Name
		}
		switch p {
		case "sync":
			syncName = name
		case "os":
			osName = name
		case "io":
			ioName = name
		}
	}
	changed := false
	isSel := func(e ast.Expr, pkg, sel string) bool {
		s, ok := e.(*ast.SelectorExpr)
		if !ok || pkg == "" {
			return false
		}
		id, ok := s.X.(*ast.Ident)
		return ok && id.Name == pkg && id.Obj == nil && s.Sel.Name == sel
	}
	ast.Inspect(f, func(n ast.Node) bool {
		switch x := n.(type) {
		case *ast.SelectorExpr:
			if isSel(x, syncName, "Mutex") || isSel(x, syncName, "RWMutex") {
				x.X.(*ast.Ident).Name = "simhook"
				st.Mutex++
				changed = true
			}
			if isSel(x, ioName, "Pipe") {
				x.X.(*ast.Ident).Name = "simhook"
				st.Pipe++
				changed = true
			}
			if tape {
				for _, fn := range []string{"Stat", "OpenFile", "Open"} {
					if isSel(x, osName, fn) {
						x.X.(*ast.Ident).Name = "simhook"
						x.Sel.Name = "Os" + fn
						st.Os++
						changed = true
					}
				}
			}
		case *ast.BlockStmt:
			rewriteGo(x.List, st, &changed)
		case *ast.CaseClause:
			rewriteGo(x.Body, st, &changed)
		case *ast.CommClause:
			rewriteGo(x.Body, st, &changed)
		}
		return true
	})
	if !changed {
		return nil, false, nil
	}
	addImport(f, simhookPath)
	dropUnusedImport(f, "sync", syncName)
	dropUnusedImport(f, "os", osName)
	dropUnusedImport(f, "io", ioName)
	var buf bytes.Buffer
	if err := format.Node(&buf, fset, f); err != nil {
		return nil, false, err
	}
	return buf.Bytes(), true, nil
}

func rewriteGo(list []ast.Stmt, st *stats, changed *bool) {
	for i, s := range list {
		g, ok := s.(*ast.GoStmt)
		if !ok {
			continue
		}
		var fn ast.Expr
		if lit, ok := g.Call.Fun.(*ast.FuncLit); ok && len(g.Call.Args) == 0 && len(lit.Type.Params.List) == 0 {
			fn = lit
		} else {
			fn = &ast.FuncLit{
				Type: &ast.FuncType{Params: &ast.FieldList{}},
				Body: &ast.BlockStmt{List: []ast.Stmt{&ast.ExprStmt{X: g.Call}}},
			}
		}
		list[i] = &ast.ExprStmt{X: &ast.CallExpr{
			Fun:  &ast.SelectorExpr{X: ast.NewIdent("simhook"), Sel: ast.NewIdent("Go")},
			Args: []ast.Expr{fn},
		}}
		st.Go++
		*changed = true
	}
}

func addImport(f *ast.File, path string) {
	for _, im := range f.Imports {
		if p, _ := strconv.Unquote(im.Path.Value); p == path {
			return
		}
	}
	spec := &ast.ImportSpec{Path: &ast.BasicLit{Kind: token.STRING, Value: strconv.Quote(path)}}
	for _, d := range f.Decls {
		if gd, ok := d.(*ast.GenDecl); ok && gd.Tok == token.IMPORT {
			gd.Specs = append(gd.Specs, spec)
			if !gd.Lparen.IsValid() {
				gd.Lparen = gd.Pos()
				gd.Rparen = gd.End()
			}
			f.Imports = append(f.Imports, spec)
			return
		}
	}
	gd := &ast.GenDecl{Tok: token.IMPORT, Specs: []ast.Spec{spec}}
	f.Decls = append([]ast.Decl{gd}, f.Decls...)
	f.Imports = append(f.Imports, spec)
}

func dropUnusedImport(f *ast.File, path, local string) {
	if local == "" {
		return
	}
	used := false
	ast.Inspect(f, func(n ast.Node) bool {
		if s, ok := n.(*ast.SelectorExpr); ok {
			if id, ok := s.X.(*ast.Ident); ok && id.Name == local && id.Obj == nil {
				used = true
			}
		}
		return !used
	})
	if used {
		return
	}
	for _, d := range f.Decls {
		gd, ok := d.(*ast.GenDecl)
		if !ok || gd.Tok != token.IMPORT {
			continue
		}
		for i, s := range gd.Specs {
			is := s.(*ast.ImportSpec)
			if p, _ := strconv.Unquote(is.Path.Value); p == path {
				gd.Specs = append(gd.Specs[:i], gd.Specs[i+1:]...)
				break
			}
		}
	}
}
