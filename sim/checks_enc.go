package sim

import (
	"bytes"
	"encoding/base64"
	"encoding/hex"
	"fmt"
	"math/rand/v2"
	"os"
	"strings"
	"testing"

	"github.com/pojntfx/stfs/pkg/config"
)

func marker(r *rand.Rand) string {
	const al = "abcdefghijklmnopqrstuvwxyzABCDEFGHIJKLMNOPQRSTUVWXYZ0123456789"
	b := make([]byte, 18)
	for i := range b {
		b[i] = al[r.IntN(len(al))]
	}
	return "Mk" + string(b)
}

// needles returns the encodings under which a secret could show up on the tape.
func needles(s string) [][]byte {
	out := [][]byte{[]byte(s), []byte(hex.EncodeToString([]byte(s)))}
	for pad := 0; pad < 3; pad++ {
		e := base64.StdEncoding.EncodeToString(append(make([]byte, pad), s...))
		// drop the characters influenced by the padding / neighbours
		if len(e) > 12 {
			out = append(out, []byte(e[4:len(e)-4]))
		}
	}
	return out
}

func init() {
	Register(&Check{
		ID: "C09", Level: "exploration", Tech: "deterministic simulation: raw-drive monitor after every call (secret markers in every encoding, clear-text STFS records, outer tar header fields) + restart with an unrelated identity",
		Rule:      "seeded histories under {age,pgp} x compression x signature whose names, link targets and contents embed unique 20-character high-entropy markers and whose owners/timestamps are set to distinctive values; after every call the raw tape is searched for every marker raw, hex and base64 (3 alignments), for the distinctive owner/time values and for clear-text STFS PAX keys other than the wrapper, and every outer tar header must carry only size and the wrapper record; finally a fresh instance with an unrelated identity must fail both the index rebuild and every restore; non-trivial = at least 3 records with secrets on the tape; distinct by (config, op kinds)",
		QuickRuns: 2000, QuickSecs: 60, ThoroughRuns: 20000, ThoroughSecs: 1500,
		Assumptions: []string{"markers are 20 random alphanumerics: a chance match in ciphertext has probability < 2^-60 per tape", "record lengths and the fixed wrapper (PAX key STFS.EmbeddedHeader, tar framing) are allowed to be visible"},
		Gen: func(r *rand.Rand, tier string, relax Relax) *Case {
			c := &Case{Cfg: GenConfig(r, 0), P: map[string]int64{}, S: map[string]string{}}
			c.Cfg.Encryption = []string{"age", "pgp"}[r.IntN(2)]
			d1, d2, f1, f2, l1 := "/"+marker(r), "", "", "", ""
			d2 = d1 + "/" + marker(r)
			f1 = d1 + "/" + marker(r)
			f2 = "/" + marker(r)
			l1 = "/" + marker(r)
			tag := uint32(r.IntN(1 << 20))
			data := func(n int) *Data {
				tag++
				return &Data{Len: n, Kind: []string{"text", "rand", "zeros"}[r.IntN(3)], Tag: tag}
			}
			all := []Op{
				{K: "mkdir", P: d1, M: 0o751},
				{K: "mkdir", P: d2, M: 0o700},
				{K: "writefile", P: f1, D: data(40 + r.IntN(3000))},
				{K: "writefile", P: f2, D: data(r.IntN(200))},
				{K: "chown", P: f1, U: 1234567, G: 1765432},
				{K: "chtimes", P: f1, T1: 1234567890, T2: 1987654321},
				{K: "symlink", P: f1, Q: l1},
				{K: "rename", P: f2, Q: d2 + "/" + marker(r)},
				{K: "chmod", P: d2, M: 0o711},
				{K: "remove", P: l1},
				{K: "removeall", P: d1},
			}
			n := 3 + r.IntN(len(all)-2)
			c.Ops = all[:n]
			if c.Cfg.Compression != "" && r.IntN(2) == 0 {
				// batched archive of 48 small, highly compressible files of consecutive sizes: somewhere in
				// such a sweep the encoded size equals the plain size; every content still has to be encrypted
				c.Ops = append(c.Ops, Op{K: "archive", P: "/", W: 1, N: 48, O: int64(150 + r.IntN(250)), D: &Data{Kind: "pad", Tag: 0x5eed0000 + uint32(r.IntN(1000))*100}})
			}
			return c
		},
		Eval: evalC09,
	})
}

func secretsOf(ops []Op) []string {
	m := map[string]bool{}
	for _, o := range ops {
		for _, p := range []string{o.P, o.Q} {
			for _, comp := range strings.Split(p, "/") {
				if strings.HasPrefix(comp, "Mk") {
					m[comp] = true
				}
			}
		}
		if o.D != nil && o.D.Len >= 10 {
			m[fmt.Sprintf("<%08x>", o.D.Tag)] = true
		}
		if o.K == "archive" {
			for _, mem := range archiveMembers(o) {
				if mem.D.Len >= 10 {
					m[fmt.Sprintf("<%08x>", mem.D.Tag)] = true
				}
			}
		}
		if o.K == "chown" {
			m[fmt.Sprint(o.U)] = true
			m[fmt.Sprint(o.G)] = true
			m[fmt.Sprintf("%o", o.U)] = true
			m[fmt.Sprintf("%o", o.G)] = true
		}
		if o.K == "chtimes" {
			m[fmt.Sprint(o.T1)] = true
			m[fmt.Sprint(o.T2)] = true
			m[fmt.Sprintf("%o", o.T2)] = true
		}
	}
	var out []string
	for k := range m {
		out = append(out, k)
	}
	return out
}

func evalC09(t *testing.T, c *Case, st *Stats, relax Relax) *Violation {
	if c.Cfg.Encryption == "" {
		return nil
	}
	return RunSeq(t, c, st, relax, seqOpts{}, func(x *SeqCtx) *Violation {
		secrets := secretsOf(c.Ops)
		clear := []string{"STFS.Action", "STFS.Version", "STFS.ReplacesName", "STFS.ReplacesContent", "STFS.UncompressedSize", "STFS.Signature", "CREATE", "UPDATE", "DELETE"}
		checked := 0
		v := runOps(x, func(i int, op Op, res Res) *Violation {
			tape, err := os.ReadFile(x.W.Drive)
			if err != nil {
				return &Violation{Prop: c.Prop, Oracle: "harness", Detail: err.Error()}
			}
			for _, s := range secrets {
				for k, n := range needles(s) {
					if idx := bytes.Index(tape, n); idx >= 0 {
						return &Violation{Prop: c.Prop, Oracle: "secret-on-tape", Step: i, Detail: fmt.Sprintf("after %s: %q is visible on the tape at byte %d (encoding %d)", op, s, idx, k)}
					}
				}
			}
			for _, s := range clear {
				if idx := bytes.Index(tape, []byte(s)); idx >= 0 {
					return &Violation{Prop: c.Prop, Oracle: "stfs-metadata-in-clear", Step: i, Detail: fmt.Sprintf("after %s: %q is visible on the tape at byte %d", op, s, idx)}
				}
			}
			recs, err := ScanTape(tape)
			if err != nil {
				return &Violation{Prop: c.Prop, Oracle: "tape-not-tar", Step: i, Detail: err.Error()}
			}
			for _, r := range recs {
				h := r.Hdr
				if h.Name != "" || h.Linkname != "" || h.Uname != "" || h.Gname != "" || h.Uid != 0 || h.Gid != 0 || h.Mode != 0 || h.ModTime.Unix() > 0 || h.Devmajor != 0 || h.Devminor != 0 {
					return &Violation{Prop: c.Prop, Oracle: "outer-header-carries-metadata", Step: i, Detail: fmt.Sprintf("record at byte %d: name=%q link=%q uid=%d gid=%d mode=%o mtime=%v", r.Off, h.Name, h.Linkname, h.Uid, h.Gid, h.Mode, h.ModTime)}
				}
				for k := range h.PAXRecords {
					if k != paxEmbedded {
						return &Violation{Prop: c.Prop, Oracle: "outer-header-carries-metadata", Step: i, Detail: fmt.Sprintf("record at byte %d has clear-text PAX record %q", r.Off, k)}
					}
				}
			}
			checked = len(recs)
			st.Add("tape_scans", 1)
			return nil
		})
		if v != nil {
			return v
		}
		// an unrelated identity can neither rebuild nor restore
		tape, _ := os.ReadFile(x.W.Drive)
		d, err := x.W.PrefixDrive(tape, len(tape))
		if err != nil {
			return &Violation{Prop: c.Prop, Oracle: "harness", Detail: err.Error()}
		}
		defer os.Remove(d)
		other, err := x.W.Open(OpenOpts{Drive: d, Index: x.W.NewIndexPath(), NoInit: true, KeySet: 1})
		if other != nil {
			defer other.Close()
		}
		if err != nil {
			return &Violation{Prop: c.Prop, Oracle: "harness", Detail: err.Error()}
		}
		recs, _ := ScanTape(tape)
		rs := int64(c.Cfg.RecordSize)
		foreignMustFail := func(when string) *Violation {
			accepted := 0
			ierr := Reindex(other, true, func(h *config.Header) { accepted++ })
			if ierr == nil || accepted > 0 {
				return &Violation{Prop: c.Prop, Oracle: "rebuild-with-foreign-key-succeeds", Detail: fmt.Sprintf("index rebuild with an unrelated identity (%s): err=%v, %d headers accepted", when, ierr, accepted)}
			}
			for _, r := range recs {
				b := r.Off / 512
				got, err := fetchAt(other, b/rs, b%rs)
				if err == nil {
					return &Violation{Prop: c.Prop, Oracle: "restore-with-foreign-key-succeeds", Detail: fmt.Sprintf("recovery.Fetch of the record at byte %d with an unrelated identity (%s) returns %d bytes without error", r.Off, when, len(got))}
				}
				st.Add("foreign_key_restores_rejected", 1)
			}
			return nil
		}
		if v := foreignMustFail("before the owner has read the tape"); v != nil {
			return v
		}
		// the owner rebuilds and restores every record of the same tape in the same process;
		// nothing it learned may help the unrelated identity afterwards
		owner, err := x.W.Open(OpenOpts{Drive: d, Index: x.W.NewIndexPath(), NoInit: true})
		if owner != nil {
			defer owner.Close()
		}
		if err != nil {
			return &Violation{Prop: c.Prop, Oracle: "harness", Detail: err.Error()}
		}
		if err := Reindex(owner, true, func(h *config.Header) {}); err != nil {
			return &Violation{Prop: c.Prop, Oracle: "owner-rebuild-fails", Detail: err.Error()}
		}
		for _, r := range recs {
			b := r.Off / 512
			// (what the owner gets for records without content is C03/C04's business)
			if _, err := fetchAt(owner, b/rs, b%rs); err == nil {
				st.Add("owner_restores", 1)
			}
		}
		if v := foreignMustFail("after the owner has rebuilt and restored the same tape in this process"); v != nil {
			return v
		}
		if checked >= 3 {
			st.Nontrivial(c.Cfg.String() + "|" + opKinds(c.Ops))
			st.Sample(fmt.Sprintf("cfg=%s tape=%dB records=%d secrets=%d ops:\n%s", c.Cfg, len(tape), checked, len(secrets), opsString(c.Ops)))
		}
		return nil
	})
}
