package sim

import (
	"bytes"
	"context"
	"fmt"
	"math/rand/v2"
	"os"
	"path"
	"sort"
	"strings"
	"testing"
)

func namesOf(ops []Op) []string {
	m := map[string]bool{}
	for _, o := range ops {
		if o.P != "" {
			m[o.P] = true
		}
		if o.Q != "" {
			m[o.Q] = true
		}
	}
	var out []string
	for k := range m {
		out = append(out, k)
	}
	sort.Strings(out)
	return out
}

func isMutating(k string) bool {
	switch k {
	case "mkdir", "mkdirall", "writefile", "remove", "removeall", "rename", "chmod", "chown", "chtimes", "symlink", "create", "openfile", "archive",
		"h.write", "h.writestring", "h.writeat", "h.truncate", "h.sync", "h.close":
		return true
	}
	return false
}

func histKey(c *Case) string {
	return opKinds(c.Ops) + "|" + c.Cfg.String() + "|" + c.S["style"]
}

// altObserve opens a second stack over the same drive (index = given file) and
// observes it. The stack is closed again.
func altObserve(x *SeqCtx, index string, extra []string) (Tree, []string, error) {
	st, err := x.W.Open(OpenOpts{Index: index})
	if st != nil {
		defer st.Close()
	}
	if err != nil {
		return nil, nil, err
	}
	t, probs := Observe(st.FS, "/", ObsOpts{Extra: extra})
	return t, probs, nil
}

// rebuildEquivalence is the C01 oracle: live == reopen == rebuild.
func rebuildEquivalence(x *SeqCtx, step int, names []string) *Violation {
	prop := x.Case.Prop
	live, lp := Observe(x.St.FS, "/", ObsOpts{Extra: names})
	// reopen: fresh process state over a copy of the same index file
	cp := x.W.NewIndexPath()
	if err := copyFile(x.St.Index, cp); err != nil {
		return &Violation{Prop: prop, Oracle: "harness", Detail: err.Error()}
	}
	re, rp, err := altObserve(x, cp, names)
	if err != nil {
		return &Violation{Prop: prop, Oracle: "reopen-fails", Step: step, Detail: "opening the existing index in a fresh instance fails: " + err.Error()}
	}
	if d := DiffTrees("live", "reopened", live, re, nil); len(d) > 0 {
		return &Violation{Prop: prop, Oracle: "reopen-differs", Step: step, Detail: strings.Join(d, "; ")}
	}
	// rebuild: empty index + Initialize
	rb, bp, err := altObserve(x, x.W.NewIndexPath(), names)
	if err != nil {
		return &Violation{Prop: prop, Oracle: "rebuild-fails", Step: step, Detail: "rebuilding the index from the tape fails: " + err.Error()}
	}
	if d := DiffTrees("live", "rebuilt", live, rb, nil); len(d) > 0 {
		return &Violation{Prop: prop, Oracle: "rebuild-differs", Step: step, Detail: strings.Join(d, "; ")}
	}
	// the root directory's own name
	rootName := func(st *Stack) string {
		fi, err := st.FS.Stat("/")
		if err != nil {
			return "ERR"
		}
		return fi.Name()
	}
	if !x.Relax["root-name"] {
		rbs, err := x.W.Open(OpenOpts{Index: x.W.NewIndexPath()})
		if err == nil {
			a, b := rootName(x.St), rootName(rbs)
			rbs.Close()
			if a != b {
				return &Violation{Prop: prop, Oracle: "root-name-differs", Step: step, Detail: fmt.Sprintf("Stat(\"/\").Name() is %q on the live instance and %q after a rebuild", a, b)}
			}
		} else if rbs != nil {
			rbs.Close()
		}
	}
	if len(lp) != len(rp) || len(lp) != len(bp) {
		return &Violation{Prop: prop, Oracle: "walk-problems-differ", Step: step, Detail: fmt.Sprintf("live=%v reopened=%v rebuilt=%v", lp, rp, bp)}
	}
	x.Stats.Add("oracle_evaluations", 1)
	return nil
}

// runOps executes the case's ops; after(i, op, res) may return a violation.
func runOps(x *SeqCtx, after func(i int, op Op, res Res) *Violation) *Violation {
	for i, op := range x.Case.Ops {
		var res Res
		switch op.K {
		case "reopen", "rebuild":
			x.Ex.CloseAll()
			x.St.Close()
			if op.K == "rebuild" {
				os.Remove(x.W.Index)
			}
			st, err := x.W.Open(OpenOpts{})
			if st != nil {
				x.St = st
			}
			if err != nil {
				return &Violation{Prop: x.Case.Prop, Oracle: op.K + "-fails", Step: i, Detail: err.Error()}
			}
			x.Ex = NewExec(st.FS, x.S)
			res = Res{Class: "ok"}
			x.Stats.Add("restarts_"+op.K, 1)
		case "archive":
			res = doArchive(x.St, op)
		default:
			res = x.Ex.Do(op)
		}
		if res.Class == "ok" {
			x.Stats.Add("calls_ok", 1)
		} else {
			x.Stats.Add("calls_failed", 1)
		}
		if v := after(i, op, res); v != nil {
			return v
		}
	}
	return nil
}

// insertArchives splices one or two direct Operations.Archive calls (batches of 0..3 members; an empty
// batch writes no record at all) into a history, at positions where no handle of the history is open (a
// write call while a read stream is open is open finding KF6).
func insertArchives(r *rand.Rand, ops []Op, stale bool) []Op {
	openH, spots := map[int]bool{}, []int{0}
	for i, o := range ops {
		switch o.K {
		case "open", "openfile", "create":
			openH[o.H] = true
		case "h.close":
			delete(openH, o.H)
		}
		if len(openH) == 0 {
			spots = append(spots, i+1)
		}
	}
	for k := 1 + r.IntN(2); k > 0; k-- {
		a := Op{K: "archive", P: "/", N: r.IntN(4), D: &Data{Len: 1 + r.IntN(3000), Kind: "text", Tag: 0xa5c0 + uint32(k)*16}}
		if stale && r.IntN(2) == 0 {
			a.Q = "stale"
		}
		at := spots[r.IntN(len(spots))]
		ops = append(append(append([]Op{}, ops[:at]...), a), ops[at:]...)
		for i := range spots {
			if spots[i] > at {
				spots[i]++
			}
		}
	}
	return ops
}

func addRestarts(r *rand.Rand, ops []Op, p float64) []Op {
	var out []Op
	for _, o := range ops {
		out = append(out, o)
		if r.Float64() < p {
			if r.IntN(2) == 0 {
				out = append(out, Op{K: "reopen"})
			} else {
				out = append(out, Op{K: "rebuild"})
			}
		}
	}
	return out
}

func init() {
	// ------------------------------------------------------------ C01
	Register(&Check{
		ID: "C01", Level: "exploration", Tech: "deterministic simulation: seeded histories + restart (reopen/rebuild) injection, differential observation",
		Rule:      "seeded sequential histories (steered by a reference model, swarm weights, adversarial name universes, pipeline/record-size swarm) with reopen/rebuild restarts injected as operations; after every call the live tree is compared with a reopened and a rebuilt instance; non-trivial = at least 2 successful mutating calls; distinct by (op-kind sequence, config, name style)",
		QuickRuns: 4000, QuickSecs: 60, ThoroughRuns: 40000, ThoroughSecs: 1500,
		Assumptions: []string{"observation through the afero API (Open+Readdir walk, Stat, full reads, Readlink)", "SQLite's own durability is trusted; the index file is copied at call boundaries"},
		Gen: func(r *rand.Rand, tier string, relax Relax) *Case {
			c := &Case{Cfg: GenConfig(r, 0.5), P: map[string]int64{}, S: map[string]string{}}
			ops, u := GenHistory(r, GenOpts{MaxOps: 14, Symlinks: r.Float64() < 0.3, Handles: r.Float64() < 0.4, Interleave: true, Sleeps: true, RS: c.Cfg.RecordSize, NoSymlinkRename: relax["symlink-rename"]})
			if r.Float64() < 0.15 {
				// direct Operations.Archive calls, including empty batches (an incremental backup with nothing to do)
				ops = insertArchives(r, ops, false)
			}
			c.Ops = addRestarts(r, ops, 0.08)
			c.S["style"] = u.Style
			c.P["every"] = 1
			if tier == "quick" && r.Float64() < 0.5 {
				c.P["every"] = 3
			}
			// swarm: seeded preemption at the device seams, so that background restore goroutines of
			// closed read streams run late relative to the caller's next call
			c.P["yield"] = int64([]int{0, 0, 10, 30}[r.IntN(4)])
			return c
		},
		Eval: func(t *testing.T, c *Case, st *Stats, relax Relax) *Violation {
			return RunSeq(t, c, st, relax, seqOpts{YieldProb: float64(c.Param("yield", 0)) / 100}, func(x *SeqCtx) *Violation {
				names := namesOf(c.Ops)
				every := int(c.Param("every", 1))
				okMut := 0
				v := runOps(x, func(i int, op Op, res Res) *Violation {
					if res.Class == "ok" && isMutating(op.K) {
						okMut++
					}
					if len(x.Ex.H) > 0 {
						return nil // compare at call boundaries with no open handle
					}
					if (i+1)%every == 0 || i == len(c.Ops)-1 {
						return rebuildEquivalence(x, i, names)
					}
					return nil
				})
				if v == nil && okMut >= 2 {
					st.Nontrivial(histKey(c))
					st.Sample(fmt.Sprintf("cfg=%s style=%s ops:\n%s", c.Cfg, c.S["style"], opsString(c.Ops)))
				}
				return v
			})
		},
	})

	// ------------------------------------------------------------ C05
	Register(&Check{
		ID: "C05", Level: "exploration", Tech: "deterministic simulation: drive-seam monitor (prefix/append-only per write) + independent tar scan after every call",
		Rule:      "seeded sequential histories incl. failing calls; after every call: previous tape is a prefix, rejected calls append nothing, every single drive write lands at end-of-file, length is a multiple of 512, archive/tar iterates all records (restart after trailers); non-trivial = tape grew at least twice; distinct by (op-kind sequence, config, name style)",
		QuickRuns: 8000, QuickSecs: 50, ThoroughRuns: 60000, ThoroughSecs: 1200,
		Assumptions: []string{"the drive is a regular file (tape devices are not simulated)", "GNU tar cross-check only in the thorough tier"},
		Gen: func(r *rand.Rand, tier string, relax Relax) *Case {
			c := &Case{Cfg: GenConfig(r, 0.5), P: map[string]int64{}, S: map[string]string{}}
			o := GenOpts{MaxOps: 14, Symlinks: r.Float64() < 0.3, Handles: r.Float64() < 0.5, Sleeps: r.Float64() < 0.3, RS: c.Cfg.RecordSize, ValidBias: 0.7, NoSymlinkRename: relax["symlink-rename"]}
			if relax["suffixnames"] {
				// KF1: such a create appends its record and then fails to find the entry
				o.AvoidSuffixes = activeSuffixes(c.Cfg)
			}
			ops, u := GenHistory(r, o)
			if r.Float64() < 0.25 {
				// Operations.Archive called directly, as the command line does: batches of 0..3 members,
				// half of them with a FileInfo that is stale by the time the file is opened
				ops = insertArchives(r, ops, true)
			}
			c.Ops = addRestarts(r, ops, 0.05)
			c.S["style"] = u.Style
			if r.Float64() < 0.3 {
				// the drive manager of the first instance is created with overwrite=true (as
				// `operation initialize` / `archive --overwrite` do): only its FIRST writer may
				// start the tape from scratch, every later one appends
				c.P["overwrite"] = 1
			}
			if r.Float64() < 0.25 {
				// fault configuration: even a call that fails part-way never changes a
				// byte that is already on the tape (only the append-only clauses are judged)
				for i := 1 + r.IntN(2); i > 0; i-- {
					seam := []string{"drive.write", "drive.write", "index.any", "cache.write", "cache.read", "drive.read", "drive.openfile"}[r.IntN(7)]
					f := Fault{Seam: seam, K: 1 + r.IntN(90)}
					if seam == "drive.write" && r.IntN(2) == 0 {
						f.Arg = 1 + r.IntN(500)
					}
					c.Faults = append(c.Faults, f)
				}
				// a restart may legitimately fail under a fault: no restart ops here
				var keep []Op
				for _, o := range c.Ops {
					if o.K != "reopen" && o.K != "rebuild" {
						keep = append(keep, o)
					}
				}
				c.Ops = keep
			}
			return c
		},
		Eval: func(t *testing.T, c *Case, st *Stats, relax Relax) *Violation {
			return RunSeq(t, c, st, relax, seqOpts{Open: OpenOpts{Overwrite: c.Param("overwrite", 0) == 1}}, func(x *SeqCtx) *Violation {
				faulty := len(c.Faults) > 0
				if faulty {
					x.W.Dev.ResetCounts()
					x.W.Dev.SetPlan(c.Faults)
				}
				prev, _ := os.ReadFile(x.W.Drive)
				if v := tapeAtRest(c.Prop, -1, prev); v != nil {
					return v
				}
				grew := 0
				v := runOps(x, func(i int, op Op, res Res) *Violation {
					cur, _ := os.ReadFile(x.W.Drive)
					if len(x.W.Dev.NonAppend) > 0 {
						return &Violation{Prop: c.Prop, Oracle: "write-not-at-end", Step: i, Detail: x.W.Dev.NonAppend[0]}
					}
					if !bytes.HasPrefix(cur, prev) {
						return &Violation{Prop: c.Prop, Oracle: "not-append-only", Step: i, Detail: fmt.Sprintf("%s: tape before the call (%d bytes) is not a prefix of the tape after it (%d bytes)", op, len(prev), len(cur))}
					}
					if !faulty && res.Class != "ok" && len(cur) != len(prev) && !strings.HasPrefix(op.K, "h.") && op.K != "writefile" {
						return &Violation{Prop: c.Prop, Oracle: "rejected-call-appends", Step: i, Detail: fmt.Sprintf("%s failed (%s) but appended %d bytes", op, res.Class, len(cur)-len(prev))}
					}
					if len(cur) > len(prev) {
						grew++
						if !faulty {
							if v := tapeAtRest(c.Prop, i, cur); v != nil {
								return v
							}
						}
					}
					prev = cur
					return nil
				})
				if faulty {
					for s, n := range x.W.Dev.Fired {
						st.Add("fired_"+s, int64(n))
					}
					st.Add("fault_configuration_runs", 1)
				}
				if v == nil && grew >= 2 {
					st.Nontrivial(histKey(c))
					st.Add("tape_bytes", int64(len(prev)))
					st.Sample(fmt.Sprintf("cfg=%s style=%s tape=%dB ops:\n%s", c.Cfg, c.S["style"], len(prev), opsString(c.Ops)))
				}
				if v == nil && c.Tier == "thorough" && len(prev) > 0 && !faulty {
					v = gnuTarCheck(c.Prop, x.W.Drive, prev)
					st.Add("gnu_tar_runs", 1)
				}
				return v
			})
		},
	})

	// ------------------------------------------------------------ C13
	Register(&Check{
		ID: "C13", Level: "exploration", Tech: "deterministic simulation: invariant monitor over namespace after every call (live rows vs walk vs listings vs lookups)",
		Rule:      "seeded sequential histories (deep MkdirAll, creation under regular files, many children, adversarial names); after every call: live index rows == entries reached by walking, every entry has a live directory parent, Readdir/Readdirnames(n) for n in {-1,0,1,2,3,k/2,k-1,k,k+1} return only children, each once, all when n<=0, at most n otherwise, listed entries stat/open with matching kind and size; non-trivial = at least 3 live entries; distinct by (op-kind sequence, name style)",
		QuickRuns: 1800, QuickSecs: 50, ThoroughRuns: 80000, ThoroughSecs: 1200,
		Assumptions: []string{"live entries are taken from the index store's GetHeaders (tombstones excluded)"},
		Gen: func(r *rand.Rand, tier string, relax Relax) *Case {
			c := &Case{Cfg: PlainConfig(recordSizes[r.IntN(len(recordSizes))]), P: map[string]int64{}, S: map[string]string{}}
			if r.Float64() < 0.2 {
				c.Cfg = GenConfig(r, 0.3)
			}
			o := GenOpts{MaxOps: 16, Handles: r.Float64() < 0.4, Interleave: true, RS: c.Cfg.RecordSize, ValidBias: 0.75}
			ops, u := GenHistory(r, o)
			if r.Float64() < 0.25 {
				// a directory with many children
				d := "/" + u.Comps[0]
				pre := []Op{{K: "mkdir", P: d, M: 0o755}}
				for i := 0; i < 5+r.IntN(30); i++ {
					if i%3 == 0 {
						pre = append(pre, Op{K: "mkdir", P: fmt.Sprintf("%s/k%d", d, i), M: 0o755})
					} else {
						pre = append(pre, Op{K: "writefile", P: fmt.Sprintf("%s/k%d", d, i), D: &Data{Len: i % 5, Kind: "text", Tag: uint32(1000 + i)}})
					}
				}
				ops = append(pre, ops...)
			}
			if r.Float64() < 0.25 {
				// a NESTED directory whose descendants share leading characters with the path is
				// renamed (and renamed back into a fresh name) at the end of the history
				top := "/zq" + u.Comps[0]
				src := top + "/" + u.Comps[len(u.Comps)-1]
				tail := []Op{{K: "mkdir", P: top, M: 0o755}, {K: "mkdir", P: src, M: 0o755}}
				for i, k := range u.Comps {
					if i%2 == 0 {
						tail = append(tail, Op{K: "writefile", P: src + "/" + k, D: &Data{Len: 1 + i, Kind: "text", Tag: uint32(2000 + i)}})
					} else {
						tail = append(tail, Op{K: "mkdir", P: src + "/" + k, M: 0o755},
							Op{K: "writefile", P: src + "/" + k + "/" + u.Comps[0], D: &Data{Len: 2, Kind: "text", Tag: uint32(2100 + i)}})
					}
				}
				if r.IntN(2) == 0 {
					tail = append(tail, Op{K: "rename", P: src, Q: top + "/zq-renamed"}, Op{K: "mkdirall", P: top + "/zq-renamed/" + u.Comps[0] + "-x/y", M: 0o755})
				} else {
					// the whole nested tree is removed recursively and its top is created again: nothing of
					// the old subtree may be left behind or come back
					tail = append(tail, Op{K: "removeall", P: top}, Op{K: "mkdirall", P: src, M: 0o755})
				}
				ops = append(ops, tail...)
			}
			c.Ops = ops
			c.S["style"] = u.Style
			return c
		},
		Eval: func(t *testing.T, c *Case, st *Stats, relax Relax) *Violation {
			return RunSeq(t, c, st, relax, seqOpts{}, func(x *SeqCtx) *Violation {
				maxLive := 0
				v := runOps(x, func(i int, op Op, res Res) *Violation {
					if len(x.Ex.H) > 0 {
						return nil
					}
					n, v := namespaceInvariants(x, i)
					if n > maxLive {
						maxLive = n
					}
					return v
				})
				if v == nil && maxLive >= 3 {
					st.Nontrivial(opKinds(c.Ops) + "|" + c.S["style"])
					st.Sample(fmt.Sprintf("cfg=%s style=%s ops:\n%s", c.Cfg, c.S["style"], opsString(c.Ops)))
				}
				return v
			})
		},
	})
}

// tapeAtRest: whole blocks, iterable by an independent tar reader.
func tapeAtRest(prop string, step int, b []byte) *Violation {
	if len(b)%512 != 0 {
		return &Violation{Prop: prop, Oracle: "tape-not-block-aligned", Step: step, Detail: fmt.Sprintf("tape length %d is not a multiple of 512", len(b))}
	}
	if _, err := ScanTape(b); err != nil {
		return &Violation{Prop: prop, Oracle: "tape-not-tar", Step: step, Detail: err.Error()}
	}
	// a well-formed tar archive ends with the end-of-archive marker (two zero blocks); at rest the
	// last archive of the concatenation is complete
	if len(b) > 0 && (len(b) < 1024 || !isZero(b[len(b)-1024:])) {
		return &Violation{Prop: prop, Oracle: "last-archive-not-terminated", Step: step, Detail: fmt.Sprintf("the tape (%d bytes) does not end with the end-of-archive marker (two zero blocks)", len(b))}
	}
	return nil
}

func cleanAbs(p string) string { return path.Clean("/" + p) }

// namespaceInvariants is the C13 oracle. Returns the number of live entries.
func namespaceInvariants(x *SeqCtx, step int) (int, *Violation) {
	prop := x.Case.Prop
	hdrs, err := x.St.MP.GetHeaders(context.Background())
	if err != nil {
		return 0, &Violation{Prop: prop, Oracle: "harness", Detail: err.Error()}
	}
	live := map[string]string{} // path -> kind
	for _, h := range hdrs {
		if h.Linkname != "" {
			continue // symlink rows are keyed differently; not generated here
		}
		k := "file"
		if h.Typeflag == '5' {
			k = "dir"
		}
		p := cleanAbs(h.Name)
		if _, dup := live[p]; dup {
			return 0, &Violation{Prop: prop, Oracle: "duplicate-live-entry", Step: step, Detail: p + " has two live rows"}
		}
		live[p] = k
	}
	for p := range live {
		if p == "/" {
			continue
		}
		par := path.Dir(p)
		if k, ok := live[par]; !ok {
			return 0, &Violation{Prop: prop, Oracle: "orphan-entry", Step: step, Detail: fmt.Sprintf("%q is live but its parent %q does not exist", p, par)}
		} else if k != "dir" {
			return 0, &Violation{Prop: prop, Oracle: "parent-not-directory", Step: step, Detail: fmt.Sprintf("%q is live but its parent %q is a %s", p, par, k)}
		}
	}
	tree, probs := Observe(x.St.FS, "/", ObsOpts{NoContent: true})
	if len(probs) > 0 {
		return 0, &Violation{Prop: prop, Oracle: "listing-vs-lookup", Step: step, Detail: strings.Join(probs, "; ")}
	}
	for p := range live {
		if _, ok := tree[p]; !ok {
			return 0, &Violation{Prop: prop, Oracle: "live-entry-unreachable", Step: step, Detail: fmt.Sprintf("%q is live but no listing from the root reaches it", p)}
		}
	}
	for p, n := range tree {
		if k, ok := live[p]; !ok {
			return 0, &Violation{Prop: prop, Oracle: "listed-entry-not-live", Step: step, Detail: fmt.Sprintf("%q is listed but is not a live entry", p)}
		} else if k != n.Kind {
			return 0, &Violation{Prop: prop, Oracle: "listed-kind-differs", Step: step, Detail: fmt.Sprintf("%q is a %s but listed as %s", p, k, n.Kind)}
		}
	}
	// count-limited listings of every directory
	children := map[string][]string{}
	for p := range live {
		if p != "/" {
			children[path.Dir(p)] = append(children[path.Dir(p)], path.Base(p))
		}
	}
	for d, k := range live {
		if k != "dir" {
			continue
		}
		ch := children[d]
		set := map[string]bool{}
		for _, c := range ch {
			set[c] = true
		}
		for _, n := range []int{-1, 0, 1, 2, 3, len(ch) / 2, len(ch) - 1, len(ch), len(ch) + 1} {
			for _, kind := range []string{"h.readdir", "h.readdirnames"} {
				e := NewExec(x.St.FS, x.S)
				if r := e.Do(Op{K: "open", P: d, H: 1}); r.Class != "ok" {
					return 0, &Violation{Prop: prop, Oracle: "open-dir-fails", Step: step, Detail: fmt.Sprintf("%q: %s", d, r.Err)}
				}
				r := e.Do(Op{K: kind, H: 1, N: n})
				e.CloseAll()
				if r.Class != "ok" && !(r.Class == "eof" && len(ch) == 0) {
					return 0, &Violation{Prop: prop, Oracle: "listing-fails", Step: step, Detail: fmt.Sprintf("%s(%d) of %q: %s", kind, n, d, r.Err)}
				}
				seen := map[string]bool{}
				for _, nm := range r.Names {
					if seen[nm] {
						return 0, &Violation{Prop: prop, Oracle: "listing-duplicate", Step: step, Detail: fmt.Sprintf("%s(%d) of %q lists %q twice", kind, n, d, nm)}
					}
					seen[nm] = true
					if !set[nm] {
						return 0, &Violation{Prop: prop, Oracle: "listing-extra", Step: step, Detail: fmt.Sprintf("%s(%d) of %q lists %q which is not a child (children: %v)", kind, n, d, nm, ch)}
					}
				}
				if n <= 0 && len(seen) != len(set) {
					return 0, &Violation{Prop: prop, Oracle: "listing-missing", Step: step, Detail: fmt.Sprintf("%s(%d) of %q lists %d of %d children", kind, n, d, len(seen), len(set))}
				}
				if n > 0 && len(r.Names) > n {
					return 0, &Violation{Prop: prop, Oracle: "listing-over-limit", Step: step, Detail: fmt.Sprintf("%s(%d) of %q returns %d entries", kind, n, d, len(r.Names))}
				}
				x.Stats.Add("listing_checks", 1)
			}
		}
	}
	return len(live), nil
}
