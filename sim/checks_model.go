package sim

import (
	"fmt"
	"math/rand/v2"
	"os"
	"path"
	"strings"
	"testing"
	"time"
)

// modelRun executes the case's ops against the implementation and the
// reference model in lock step: per-call results, then the whole tree.
func modelRun(x *SeqCtx, treeEvery int, rebuildAtEnd bool) *Violation {
	c := x.Case
	ref := NewRefFS(func() int64 { return time.Now().UnixNano() }, 0o777)
	ref.UID, ref.GID = os.Getuid(), os.Getgid()
	okMut := 0
	streams := map[int]bool{} // handles obtained with Open: a positioned read stream keeps the drive (KF6)
	v := runOps(x, func(i int, op Op, res Res) *Violation {
		if op.K == "reopen" || op.K == "rebuild" {
			for h := range ref.H {
				ref.Apply(Op{K: "h.close", H: h})
			}
			streams = map[int]bool{}
			return nil
		}
		switch {
		case op.K == "open" && res.Class == "ok":
			streams[op.H] = true
		case op.K == "h.close":
			delete(streams, op.H)
		}
		exp := ref.Apply(op)
		if id, detail := CompareRes(op, res, exp); id != "" {
			return &Violation{Prop: c.Prop, Oracle: id, Step: i, Detail: fmt.Sprintf("%s: %s", op, detail)}
		}
		if res.Class == "ok" && isMutating(op.K) {
			okMut++
		}
		if len(streams) > 0 && x.Relax["nopartialreads"] {
			// KF6: reading the tree while a positioned read stream is open deadlocks the instance
			x.Stats.Add("tree_comparisons_skipped_open_stream", 1)
			return nil
		}
		if treeEvery > 0 && ((i+1)%treeEvery == 0 || i == len(c.Ops)-1) {
			obs, probs := Observe(x.St.FS, "/", ObsOpts{Extra: namesOf(c.Ops)})
			if len(probs) > 0 {
				return &Violation{Prop: c.Prop, Oracle: "walk-problem", Step: i, Detail: strings.Join(probs, "; ")}
			}
			rt, mask := ref.Tree()
			if d := CompareTree(obs, rt, mask); len(d) > 0 {
				return &Violation{Prop: c.Prop, Oracle: "tree-differs-after:" + op.K, Step: i, Detail: fmt.Sprintf("after %s: %s", op, strings.Join(d, "; "))}
			}
			x.Stats.Add("tree_comparisons", 1)
		}
		return nil
	})
	if v != nil {
		return v
	}
	if rebuildAtEnd {
		x.Ex.CloseAll()
		for h := range ref.H {
			ref.Apply(Op{K: "h.close", H: h})
		}
		rb, probs, err := altObserve(x, x.W.NewIndexPath(), namesOf(c.Ops))
		if err != nil {
			return &Violation{Prop: c.Prop, Oracle: "rebuild-fails", Step: len(c.Ops), Detail: err.Error()}
		}
		if len(probs) > 0 {
			return &Violation{Prop: c.Prop, Oracle: "walk-problem-after-rebuild", Step: len(c.Ops), Detail: strings.Join(probs, "; ")}
		}
		rt, mask := ref.Tree()
		if d := CompareTree(rb, rt, mask); len(d) > 0 {
			return &Violation{Prop: c.Prop, Oracle: "tree-differs-after-rebuild", Step: len(c.Ops), Detail: strings.Join(d, "; ")}
		}
	}
	if okMut >= 2 && c.Prop == "C02" {
		x.Stats.Nontrivial(histKey(c))
		x.Stats.Sample(fmt.Sprintf("cfg=%s style=%s ops:\n%s", c.Cfg, c.S["style"], opsString(c.Ops)))
	}
	return nil
}

// ---------------------------------------------------------------- C12 generator

func genSubtreeCase(r *rand.Rand, avoid []string) ([]Op, string) {
	styles := []string{"sqlwild", "sqlwild", "prefix", "unicode", "dots", "quotes", "plain"}
	u := GenUniverseAvoid(r, styles[r.IntN(len(styles))], avoid)
	var ops []Op
	var dirs = []string{"/"}
	var files []string
	tag := uint32(0)
	// build a tree: sibling directories with related names, nested two levels
	nd := 2 + r.IntN(5)
	for i := 0; i < nd; i++ {
		par := dirs[r.IntN(len(dirs))]
		if strings.Count(par, "/") >= 3 {
			par = "/"
		}
		p := path.Join(par, u.comp(r))
		dup := false
		for _, d := range dirs {
			if d == p {
				dup = true
			}
		}
		for _, f := range files {
			if f == p {
				dup = true
			}
		}
		if dup {
			continue
		}
		ops = append(ops, Op{K: "mkdir", P: p, M: 0o755})
		dirs = append(dirs, p)
	}
	nf := 1 + r.IntN(5)
	for i := 0; i < nf; i++ {
		p := path.Join(dirs[r.IntN(len(dirs))], u.comp(r))
		dup := false
		for _, d := range dirs {
			if d == p {
				dup = true
			}
		}
		for _, f := range files {
			if f == p {
				dup = true
			}
		}
		if dup {
			continue
		}
		tag++
		ops = append(ops, Op{K: "writefile", P: p, D: &Data{Len: []int{0, 5, 600}[r.IntN(3)], Kind: "text", Tag: tag}})
		files = append(files, p)
	}
	// sometimes delete something first so that destinations are "formerly used names"
	if r.Float64() < 0.3 && len(files) > 0 {
		ops = append(ops, Op{K: "remove", P: files[r.IntN(len(files))]})
	}
	// the operations under test
	for k := 1 + r.IntN(3); k > 0; k-- {
		target := dirs[r.IntN(len(dirs))]
		if r.Float64() < 0.15 && len(files) > 0 {
			target = files[r.IntN(len(files))]
		}
		if target == "/" {
			target = path.Join("/", u.comp(r))
		}
		if r.Float64() < 0.45 {
			ops = append(ops, Op{K: "removeall", P: target})
		} else {
			var dst string
			switch r.IntN(5) {
			case 0:
				dst = path.Join(target, u.comp(r)) // into itself
			case 1:
				dst = dirs[r.IntN(len(dirs))] // onto an existing directory
				if dst == "/" {
					dst = path.Join("/", u.comp(r))
				}
			case 2:
				dst = path.Join(path.Dir(target), u.comp(r)) // sibling name
			default:
				dst = path.Join(dirs[r.IntN(len(dirs))], u.comp(r))
			}
			ops = append(ops, Op{K: "rename", P: target, Q: dst})
		}
	}
	return ops, u.Style
}

// ---------------------------------------------------------------- C14 generator

func genHandleProgram(r *rand.Rand, rs int) []Op {
	rec := rs * 512
	sizes := []int{0, 1, 10, 511, 512, 513, 2000, rec - 1, rec, rec + 1, 2*rec + 3}
	size := sizes[r.IntN(len(sizes))]
	if size > 40000 {
		size = 40000 + r.IntN(100)
	}
	if size < 0 {
		size = 0
	}
	tag := uint32(1)
	var ops []Op
	exists := r.Float64() < 0.85
	if exists {
		ops = append(ops, Op{K: "writefile", P: "/f", D: &Data{Len: size, Kind: []string{"text", "rand", "zeros"}[r.IntN(3)], Tag: tag}})
	} else {
		size = 0
	}
	flag := openFlagSets[r.IntN(len(openFlagSets))]
	if !exists {
		flag |= os.O_CREATE
	}
	// a second, read-only handle is opened BEFORE the program runs and used only after the first
	// handle has been closed: it must see the file as it is then, not as it was when it was opened
	second := exists && r.IntN(6) == 0
	if second {
		ops = append(ops, Op{K: "open", P: "/f", H: 2})
	}
	ops = append(ops, Op{K: "openfile", P: "/f", H: 1, F: flag, M: 0o644})
	cur := size
	off := func() int64 {
		switch r.IntN(8) {
		case 0:
			return 0
		case 1:
			return int64(cur)
		case 2:
			if r.IntN(2) == 0 {
				return int64(cur) + 1 // exactly one byte beyond the end
			}
			return int64(cur) + 1 + int64(r.IntN(20))
		case 3:
			return -1 - int64(r.IntN(5))
		case 4:
			return int64(cur) - 1
		default:
			if cur == 0 {
				return int64(r.IntN(4))
			}
			return int64(r.IntN(cur))
		}
	}
	buf := func() int {
		return []int{0, 1, 7, 100, 512, 4096, cur, cur + 1, cur / 2}[r.IntN(9)]
	}
	data := func() *Data {
		tag++
		return &Data{Len: []int{0, 1, 5, 100, 513, 3000}[r.IntN(6)], Kind: []string{"text", "rand"}[r.IntN(2)], Tag: tag}
	}
	n := 1 + r.IntN(14)
	if r.Float64() < 0.2 {
		n = 15 + r.IntN(15)
	}
	// swarm: some programs are read-only, some write-only
	mode := r.IntN(4) // 0 mixed, 1 reads+seeks, 2 writes+seeks, 3 everything incl. truncate
	for i := 0; i < n; i++ {
		k := r.IntN(10)
		switch {
		case mode == 1 && k >= 5:
			k = r.IntN(4)
		case mode == 2 && k < 4:
			k = 5 + r.IntN(4)
		}
		switch k {
		case 0, 1:
			ops = append(ops, Op{K: "h.read", H: 1, N: buf()})
		case 2:
			ops = append(ops, Op{K: "h.readat", H: 1, N: buf(), O: off()})
		case 3, 4:
			ops = append(ops, Op{K: "h.seek", H: 1, O: off(), W: r.IntN(3)})
		case 5:
			d := data()
			ops = append(ops, Op{K: "h.write", H: 1, D: d})
			cur += d.Len
		case 6:
			d := data()
			ops = append(ops, Op{K: "h.writestring", H: 1, D: d})
			cur += d.Len
		case 7:
			d := data()
			ops = append(ops, Op{K: "h.writeat", H: 1, D: d, O: off()})
			cur += d.Len
		case 8:
			if mode == 3 || r.Float64() < 0.3 {
				o := off()
				ops = append(ops, Op{K: "h.truncate", H: 1, O: o})
				if o >= 0 {
					cur = int(o)
					if r.IntN(3) == 0 {
						// boundary pair: now that the size is known exactly, grow or shrink by one byte
						o += int64(r.IntN(2)*2 - 1)
						if o >= 0 {
							ops = append(ops, Op{K: "h.truncate", H: 1, O: o})
							cur = int(o)
						}
					}
				}
			} else {
				ops = append(ops, Op{K: "h.stat", H: 1})
			}
		case 9:
			if r.Float64() < 0.5 {
				ops = append(ops, Op{K: "h.sync", H: 1})
			} else {
				ops = append(ops, Op{K: "h.stat", H: 1})
			}
		}
	}
	ops = append(ops, Op{K: "h.close", H: 1})
	if second {
		ops = append(ops, Op{K: "h.read", H: 2, N: 1 << 17}, Op{K: "h.read", H: 2, N: 16}, Op{K: "h.close", H: 2})
	}
	ops = append(ops, Op{K: "stat", P: "/f"}, Op{K: "readfile", P: "/f"})
	return ops
}

func init() {
	Register(&Check{
		ID: "C02", Level: "exploration", Tech: "deterministic simulation: lock-step refinement against an executable reference filesystem (RefFS), per call and whole tree",
		Rule:      "seeded sequential histories over adversarial name universes (reused names, SQL wildcards, dots/suffixes, spaces, non-ASCII, >100-byte components), every OpenFile flag set, contents 0..several records, swarm over pipeline configs; each call's success/error class and the whole observed tree are compared with RefFS after every call; non-trivial = at least 2 successful mutating calls; distinct by (op-kind sequence, config, name style)",
		QuickRuns: 6000, QuickSecs: 60, ThoroughRuns: 100000, ThoroughSecs: 1500,
		Assumptions: []string{"RefFS semantics = POSIX/afero in-memory filesystem; fields the statement leaves open (implicit mtime bumps, directory sizes, cursor after ReadAt/WriteAt, size of a file with an unflushed handle) are masked, POSIX ENOTDIR is accepted as any failure", "symlinks are out of C02's scope", "O_RDONLY|O_TRUNC and removing/renaming an entry that has an open handle are not generated (reference behaviour not uniform)"},
		Gen: func(r *rand.Rand, tier string, relax Relax) *Case {
			c := &Case{Cfg: GenConfig(r, 0.6), P: map[string]int64{}, S: map[string]string{}}
			o := GenOpts{MaxOps: 14, Handles: r.Float64() < 0.6, Interleave: true, Reads: true, Sleeps: r.Float64() < 0.4, RS: c.Cfg.RecordSize}
			if relax["suffixnames"] {
				o.AvoidSuffixes = activeSuffixes(c.Cfg)
			}
			ops, u := GenHistory(r, o)
			c.Ops = addRestarts(r, ops, 0.03)
			c.S["style"] = u.Style
			c.P["yield"] = int64([]int{0, 0, 10, 30}[r.IntN(4)]) // swarm: seeded preemption at the device seams
			return c
		},
		Eval: func(t *testing.T, c *Case, st *Stats, relax Relax) *Violation {
			return RunSeq(t, c, st, relax, seqOpts{YieldProb: float64(c.Param("yield", 0)) / 100}, func(x *SeqCtx) *Violation { return modelRun(x, 1, false) })
		},
	})

	Register(&Check{
		ID: "C12", Level: "exploration", Tech: "deterministic simulation: lock-step refinement against RefFS on generated adversarial trees, plus rebuild restart",
		Rule:      "generated trees over adversarial alphabets ('_', '%', '.', ' ', multi-byte, quote characters, prefix-related siblings a/aa/a_/a%), then 1-3 RemoveAll/Rename calls on a chosen directory (destinations: inside itself, onto an existing directory, sibling name, formerly used name); whole tree compared with RefFS after every call and after a rebuild from the tape; non-trivial = at least 3 entries existed when the subtree call ran; distinct by (op sequence incl. paths)",
		QuickRuns: 6000, QuickSecs: 50, ThoroughRuns: 80000, ThoroughSecs: 1200,
		Assumptions: []string{"RefFS as in C02"},
		Gen: func(r *rand.Rand, tier string, relax Relax) *Case {
			c := &Case{Cfg: PlainConfig(recordSizes[r.IntN(len(recordSizes))]), P: map[string]int64{}, S: map[string]string{}}
			if r.Float64() < 0.15 {
				c.Cfg = GenConfig(r, 0.2)
			}
			var avoid []string
			if relax["suffixnames"] {
				avoid = activeSuffixes(c.Cfg)
			}
			c.Ops, c.S["style"] = genSubtreeCase(r, avoid)
			return c
		},
		Eval: func(t *testing.T, c *Case, st *Stats, relax Relax) *Violation {
			return RunSeq(t, c, st, relax, seqOpts{}, func(x *SeqCtx) *Violation {
				v := modelRun(x, 1, true)
				if v == nil && len(c.Ops) >= 4 {
					var sb strings.Builder
					for _, o := range c.Ops {
						sb.WriteString(o.K + o.P + ">" + o.Q + ";")
					}
					st.Nontrivial(sb.String())
				}
				return v
			})
		},
	})

	Register(&Check{
		ID: "C14", Level: "exploration", Tech: "deterministic simulation: handle programs in lock step with a byte-array reference file (RefFS handle model); restore goroutine scheduled by the simulator",
		Rule:      "generated handle programs (1-30 calls of Read/ReadAt/Seek(all whences, negative..beyond end)/Write/WriteAt/WriteString/Truncate/Sync/Stat) on files of 0..several records under every OpenFile flag set, both write caches, pipeline swarm; every returned count/offset/bytes/EOF compared with the model, then Stat + full read after Close; non-trivial = at least 3 handle calls succeeded; distinct by (flags, op-kind sequence, size class, config)",
		QuickRuns: 12000, QuickSecs: 60, ThoroughRuns: 80000, ThoroughSecs: 1500,
		Assumptions: []string{"cursor after ReadAt/WriteAt is unspecified (os.File keeps it, afero's in-memory file moves it): the model forgets it until the next absolute Seek", "WriteAt on an O_APPEND handle is unspecified", "(n>0, EOF) and (n, nil) followed by (0, EOF) are equivalent per io.Reader", "no other drive-using call is issued while a read stream is open (known finding D9)"},
		Gen: func(r *rand.Rand, tier string, relax Relax) *Case {
			c := &Case{Cfg: GenConfig(r, 0.5), P: map[string]int64{}, S: map[string]string{}}
			c.Ops = genHandleProgram(r, c.Cfg.RecordSize)
			return c
		},
		Eval: func(t *testing.T, c *Case, st *Stats, relax Relax) *Violation {
			return RunSeq(t, c, st, relax, seqOpts{YieldProb: 0.2}, func(x *SeqCtx) *Violation {
				v := modelRun(x, 0, false)
				if v == nil {
					okH := 0
					for _, o := range c.Ops {
						if strings.HasPrefix(o.K, "h.") {
							okH++
						}
					}
					if okH >= 3 {
						fl := 0
						for _, o := range c.Ops {
							if o.K == "openfile" {
								fl = o.F
							}
						}
						st.Nontrivial(fmt.Sprintf("%d|%s|%s", fl, opKinds(c.Ops), c.Cfg))
						st.Sample(fmt.Sprintf("cfg=%s ops:\n%s", c.Cfg, opsString(c.Ops)))
					}
				}
				return v
			})
		},
	})
}
