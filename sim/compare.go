package sim

import (
	"bytes"
	"fmt"
	"sort"
)

// CompareRes checks an implementation result against the model's expectation.
// It returns (oracle id, detail); oracle id "" means agreement.
func CompareRes(op Op, got Res, exp ExpRes) (string, string) {
	if got.Contract != "" {
		return "io-contract:" + op.K, got.Contract
	}
	if exp.Class == "any" || exp.Class == "nohandle" || got.Class == "nohandle" {
		return "", ""
	}
	kind := op.K
	switch exp.Class {
	case "ok":
		if got.Class != "ok" {
			return "unexpected-failure:" + kind, fmt.Sprintf("model succeeds, implementation fails with %s (%s)", got.Class, got.Err)
		}
	case "fail":
		if got.Class == "ok" {
			return "unexpected-success:" + kind, "model fails, implementation succeeds"
		}
		return "", ""
	default:
		if got.Class == "ok" {
			return "unexpected-success:" + kind, fmt.Sprintf("model fails with %s, implementation succeeds", exp.Class)
		}
		if got.Class != exp.Class {
			return "error-class:" + kind, fmt.Sprintf("model fails with %s, implementation with %s (%s)", exp.Class, got.Class, got.Err)
		}
		return "", ""
	}
	if exp.NOK && got.N != exp.N {
		return "count:" + kind, fmt.Sprintf("model reports %d, implementation %d", exp.N, got.N)
	}
	if exp.DataOK && !bytes.Equal(got.Data, exp.Data) {
		return "data:" + kind, fmt.Sprintf("model returns %s, implementation %s", sumOf(exp.Data), sumOf(got.Data))
	}
	if exp.EOF && !got.EOF {
		return "eof:" + kind, "model signals end of file, implementation does not"
	}
	if got.EOF && !exp.EOF && !exp.EOFMay && (kind == "h.read" || kind == "h.readat") {
		return "eof:" + kind, "implementation signals end of file before the end"
	}
	if exp.Info != nil && got.Info != nil {
		a, b := *exp.Info, *got.Info
		if !exp.MtimeOK {
			a.Mtime, b.Mtime = 0, 0
		}
		if !exp.SizeOK {
			a.Size, b.Size = 0, 0
		}
		if a != b {
			return "info:" + kind, fmt.Sprintf("model %+v implementation %+v", a, b)
		}
	}
	if exp.NamesOK {
		seen := map[string]bool{}
		all := map[string]bool{}
		for _, n := range exp.Names {
			all[n] = true
		}
		for _, n := range got.Names {
			if seen[n] {
				return "listing-duplicate:" + kind, fmt.Sprintf("%q listed twice", n)
			}
			seen[n] = true
			if !all[n] {
				return "listing-extra:" + kind, fmt.Sprintf("%q listed but not a child (children %v)", n, exp.Names)
			}
		}
		if exp.Limit <= 0 {
			if len(seen) != len(all) {
				g := append([]string(nil), got.Names...)
				sort.Strings(g)
				return "listing-missing:" + kind, fmt.Sprintf("children %v, listed %v", exp.Names, g)
			}
		} else if len(got.Names) > exp.Limit {
			return "listing-limit:" + kind, fmt.Sprintf("asked for %d, got %d", exp.Limit, len(got.Names))
		}
	}
	return "", ""
}

// CompareTree compares an observed tree with the model's tree under its mask.
func CompareTree(obs Tree, ref Tree, mask map[string]Mask) []string {
	o2 := Tree{}
	for k, v := range obs {
		m := mask[k]
		r := ref[k]
		if v.Kind == "dir" {
			v.Size = 0
		}
		if m.Mtime {
			v.Mtime = r.Mtime
		}
		if m.Content {
			v.Size, v.Sum = r.Size, r.Sum
		}
		o2[k] = v
	}
	return DiffTrees("model", "impl", ref, o2, nil)
}
