package sim

import (
	"encoding/json"
	"os"
	"testing"
	"testing/synctest"
	"time"
)

func TestGenKeys(t *testing.T) {
	if _, err := os.Stat(keyPath()); err == nil && os.Getenv("VERIF_REGEN_KEYS") == "" {
		return
	}
	var kf *KeyFile
	var err error
	start := time.Now()
	synctest.Test(t, func(t *testing.T) {
		kf, err = GenKeyFile(3)
	})
	if err != nil {
		t.Fatal(err)
	}
	b, _ := json.Marshal(kf)
	if err := os.WriteFile(keyPath(), b, 0o600); err != nil {
		t.Fatal(err)
	}
	t.Logf("generated keys in %v", time.Since(start))
}

func TestSmoke(t *testing.T) {
	for _, cfg := range []Config{PlainConfig(20), {Compression: "zstandard", Level: "fastest", Encryption: "age", Signature: "minisign", RecordSize: 3, Cache: "file"}, {Compression: "gzip", Level: "fastest", Encryption: "pgp", Signature: "pgp", RecordSize: 1, Cache: "memory"}} {
		start := time.Now()
		out := RunBubble(t, 1, BubbleOpts{}, func(s *Sched) {
			w, err := NewWorld(cfg, s)
			if err != nil {
				t.Error(err)
				return
			}
			defer w.Close()
			st, err := w.Open(OpenOpts{})
			if err != nil {
				t.Error(err)
				return
			}
			defer st.Close()
			e := NewExec(st.FS, s)
			for _, op := range []Op{
				{K: "mkdir", P: "/a", M: 0o755},
				{K: "writefile", P: "/a/f", D: &Data{Len: 1000, Kind: "text", Tag: 1}},
				{K: "sleep", O: 3600},
				{K: "writefile", P: "/g", D: &Data{Len: 0, Kind: "text", Tag: 2}},
				{K: "rename", P: "/a/f", Q: "/h"},
				{K: "stat", P: "/h"},
				{K: "readfile", P: "/h"},
				{K: "removeall", P: "/missing"},
				{K: "mkdir", P: "/b", M: 0o700},
			} {
				r := e.Do(op)
				t.Logf("%v -> %+v", op, Res{Class: r.Class, Err: r.Err, N: r.N, Sum: r.Sum, Info: r.Info})
			}
			tr, probs := Observe(st.FS, "/", ObsOpts{})
			t.Logf("tree:\n%sprobs=%v", tr, probs)
		})
		t.Logf("cfg %v outcome %+v wall=%v", cfg, out, time.Since(start))
	}
}
