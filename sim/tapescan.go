package sim

import (
	"archive/tar"
	"bytes"
	"fmt"
	"io"
)

// TapeRec is one member found by an independent scan of the raw drive bytes.
type TapeRec struct {
	Off     int64 // byte offset of the member's first header block
	DataOff int64
	Size    int64
	Hdr     *tar.Header
	Archive int // index of the archive (trailer-delimited) the member belongs to
}

type countReader struct {
	r io.Reader
	n int64
}

func (c *countReader) Read(p []byte) (int, error) {
	n, err := c.r.Read(p)
	c.n += int64(n)
	return n, err
}

func isZero(b []byte) bool {
	for _, x := range b {
		if x != 0 {
			return false
		}
	}
	return true
}

func roundUp512(n int64) int64 { return (n + 511) / 512 * 512 }

// ScanTape iterates a concatenation of tar archives with archive/tar, restarting
// after each trailer and skipping zero blocks (GNU tar --ignore-zeros semantics).
func ScanTape(b []byte) ([]TapeRec, error) {
	var recs []TapeRec
	off := int64(0)
	arch := 0
	for off < int64(len(b)) {
		if int64(len(b))-off < 512 {
			return recs, fmt.Errorf("trailing %d bytes at offset %d are not a whole block", int64(len(b))-off, off)
		}
		if isZero(b[off : off+512]) {
			off += 512
			continue
		}
		cr := &countReader{r: bytes.NewReader(b[off:])}
		tr := tar.NewReader(cr)
		next := int64(0)
		n := 0
		for {
			hdr, err := tr.Next()
			if err == io.EOF {
				break
			}
			if err != nil {
				return recs, fmt.Errorf("archive %d at offset %d, member %d: %v", arch, off+next, n, err)
			}
			recs = append(recs, TapeRec{Off: off + next, DataOff: off + cr.n, Size: hdr.Size, Hdr: hdr, Archive: arch})
			next = cr.n + roundUp512(hdr.Size)
			n++
		}
		if n == 0 {
			return recs, fmt.Errorf("archive at offset %d has no members", off)
		}
		// the reader has consumed the first trailer blocks; continue after them
		if cr.n < next {
			cr.n = next
		}
		off += cr.n
		arch++
	}
	return recs, nil
}

// gnuTarCheck feeds the tape to GNU tar (-t -i) as a second, independent reader.
func gnuTarCheck(prop, drive string, b []byte) *Violation {
	recs, err := ScanTape(b)
	if err != nil {
		return &Violation{Prop: prop, Oracle: "tape-not-tar", Detail: err.Error()}
	}
	out, err := execTar(drive)
	if err != nil {
		return &Violation{Prop: prop, Oracle: "gnu-tar-rejects-tape", Detail: err.Error()}
	}
	if out != len(recs) {
		return &Violation{Prop: prop, Oracle: "gnu-tar-member-count", Detail: fmt.Sprintf("GNU tar lists %d members, archive/tar %d", out, len(recs))}
	}
	return nil
}
