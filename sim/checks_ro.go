package sim

import (
	"archive/tar"
	"bytes"
	"crypto/sha256"
	"errors"
	"fmt"
	"math/rand/v2"
	"os"
	"path/filepath"
	"sort"
	"strings"
	"testing"
)

func dumpAllRows(st *Stack) string {
	rows := DumpRowsPlain(st)
	return strings.Join(rows, "\n")
}

// DumpRowsPlain lists every row (tombstones included) with all columns that matter.
func DumpRowsPlain(st *Stack) []string {
	db := st.MP.VerifDB()
	rows, err := db.Query(`select name, linkname, typeflag, deleted, record, block, lastknownrecord, lastknownblock, size, mode, uid, gid, modtime, paxrecords from headers order by name, linkname`)
	if err != nil {
		return []string{"ERR " + err.Error()}
	}
	defer rows.Close()
	var out []string
	for rows.Next() {
		var name, link, mt, pax string
		var tf, del, rec, blk, lr, lb, size, mode, uid, gid int64
		if err := rows.Scan(&name, &link, &tf, &del, &rec, &blk, &lr, &lb, &size, &mode, &uid, &gid, &mt, &pax); err != nil {
			out = append(out, "ERR "+err.Error())
			continue
		}
		out = append(out, fmt.Sprintf("%q|%q|%d|%d|%d/%d|%d/%d|%d|%o|%d:%d|%s|%s", name, link, tf, del, rec, blk, lr, lb, size, mode, uid, gid, mt, pax))
	}
	return out
}

func isExplicitMutator(k string) bool {
	switch k {
	case "create", "mkdir", "mkdirall", "remove", "removeall", "rename", "chmod", "chown", "chtimes", "symlink", "writefile",
		"h.write", "h.writeat", "h.writestring", "h.truncate":
		return true
	}
	return false
}

func isPureRead(k string) bool {
	switch k {
	case "stat", "lstat", "readlink", "readfile", "open", "h.read", "h.readat", "h.seek", "h.stat", "h.readdir", "h.readdirnames", "h.close", "h.name":
		return true
	}
	return false
}

func init() {
	Register(&Check{
		ID: "C15", Level: "exploration", Tech: "deterministic simulation: seam monitors (drive writer opens, index-store mutations) + tape digest + full row dump after every call on read-only instances, differential reads against a writable twin",
		Rule:      "a writable instance populates a tape from a generated history; then a read-only instance (composition A: with write backend; composition B: as `serve http` builds it, writeOps=nil and no write cache; index present or absent) receives a generated history of every mutating and non-mutating method incl. OpenFile with every flag set and writes/truncates/syncs on the handles; after every call: no drive writer was opened, no mutating index-store method was called, SHA-256 of the tape and the dump of all index rows are unchanged, explicit mutators fail with a permission error, nothing panics, and pure reads return what a writable twin over copies returns; non-trivial = at least 3 mutating and 2 read calls on a tape with >= 3 entries; distinct by (composition, op kinds)",
		QuickRuns: 6000, QuickSecs: 60, ThoroughRuns: 40000, ThoroughSecs: 1500,
		Assumptions: []string{"building a missing index on first open is allowed; the baseline for 'unchanged' is taken right after the read-only instance has been initialised"},
		Gen: func(r *rand.Rand, tier string, relax Relax) *Case {
			c := &Case{Cfg: GenConfig(r, 0.6), P: map[string]int64{}, S: map[string]string{}}
			pop, u := GenHistory(r, GenOpts{MaxOps: 8, RS: c.Cfg.RecordSize, ValidBias: 0.9, Style: "plain", Symlinks: r.Float64() < 0.3})
			c.Progs = append(c.Progs, pop)
			// the read-only history reuses the same name universe: plain names, so most paths exist
			// (steered by the state the population leaves behind, so that most calls hit existing entries)
			ro, _ := GenHistory(r, GenOpts{MaxOps: 14, RS: c.Cfg.RecordSize, ValidBias: 0.9, Style: "plain", Handles: true, Reads: true, Symlinks: r.Float64() < 0.3, Init: pop})
			// sprinkle read groups on paths of the population
			var paths []string
			for _, o := range pop {
				if o.P != "" {
					paths = append(paths, o.P)
				}
			}
			paths = append(paths, "/")
			sizeOf := map[string]int{}
			for _, o := range pop {
				if o.K == "writefile" && o.D != nil {
					sizeOf[o.P] = o.D.Len
				}
			}
			var out []Op
			h := 100
			openStreams := 0
			for _, o := range ro {
				out = append(out, o)
				switch o.K {
				case "open":
					openStreams++
				case "h.close":
					if openStreams > 0 {
						openStreams--
					}
				}
				// (KF6: no second read while a read stream of the history is open)
				if openStreams == 0 && r.Float64() < 0.4 {
					p := paths[r.IntN(len(paths))]
					h++
					switch r.IntN(7) {
					case 6: // truncate to exactly the size the file has (a no-op on a writable file is still a mutating call here)
						out = append(out, Op{K: "openfile", P: p, H: h, F: []int{os.O_RDONLY, os.O_RDWR, os.O_WRONLY}[r.IntN(3)], M: 0o644},
							Op{K: "h.truncate", H: h, O: int64(sizeOf[p])}, Op{K: "h.truncate", H: h, O: int64(sizeOf[p]) + int64(r.IntN(3)) - 1}, Op{K: "h.close", H: h})
					case 4: // consume part of the content, go back, read again, try to write, close or sync
						out = append(out, Op{K: "open", P: p, H: h}, Op{K: "h.read", H: h, N: 1 + r.IntN(40)},
							Op{K: "h.seek", H: h, O: int64(r.IntN(3)), W: 0}, Op{K: "h.read", H: h, N: 1 << 16})
						if r.IntN(2) == 0 {
							out = append(out, Op{K: "h.write", H: h, D: &Data{Len: 3, Kind: "text", Tag: uint32(h)}})
						}
						if r.IntN(2) == 0 {
							out = append(out, Op{K: "h.sync", H: h})
						}
						out = append(out, Op{K: "h.close", H: h})
					case 5: // positional reads at falling offsets, seek relative to the end and the cursor
						out = append(out, Op{K: "openfile", P: p, H: h, F: []int{os.O_RDONLY, os.O_RDWR}[r.IntN(2)], M: 0o644}, // a read-only instance grants read access for both
							Op{K: "h.readat", H: h, N: 8, O: int64(5 + r.IntN(30))}, Op{K: "h.readat", H: h, N: 8, O: int64(r.IntN(5))},
							Op{K: "h.seek", H: h, O: -int64(r.IntN(4)), W: 2}, Op{K: "h.seek", H: h, O: -int64(r.IntN(4)), W: 1}, Op{K: "h.read", H: h, N: 64},
							Op{K: "h.close", H: h})
					case 0:
						out = append(out, Op{K: "stat", P: p})
					case 1:
						out = append(out, Op{K: "readfile", P: p})
					case 2:
						out = append(out, Op{K: "open", P: p, H: h}, Op{K: "h.readdirnames", H: h, N: -1}, Op{K: "h.close", H: h})
					case 3:
						out = append(out, Op{K: "open", P: p, H: h}, Op{K: "h.read", H: h, N: 1 << 16}, Op{K: "h.stat", H: h}, Op{K: "h.close", H: h})
					}
				}
			}
			c.Progs = append(c.Progs, out)
			c.P["composition"] = int64(r.IntN(2))
			c.P["index_absent"] = int64(r.IntN(4) / 3)
			c.P["rofail"] = int64([]int{0, 0, 1, 2}[r.IntN(4)])
			c.P["stale"] = int64(r.IntN(3) / 2)
			c.P["torntail"] = int64(r.IntN(4) / 3)
			_ = u
			return c
		},
		Eval: evalC15,
	})
}

func evalC15(t *testing.T, c *Case, st *Stats, relax Relax) *Violation {
	if len(c.Progs) < 2 {
		return nil
	}
	return RunSeq(t, c, st, relax, seqOpts{}, func(x *SeqCtx) *Violation {
		// 1. populate (an index snapshot taken half-way is the "stale index" of scenario 2c)
		staleIdx := ""
		for i, op := range c.Progs[0] {
			if i == (len(c.Progs[0])+1)/2 && c.Param("stale", 0) == 1 && len(x.Ex.H) == 0 {
				staleIdx = x.W.NewIndexPath()
				copyFile(x.W.Index, staleIdx)
			}
			x.Ex.Do(op)
		}
		x.Ex.CloseAll()
		x.St.Close()
		// (optionally the tape ends in an incomplete block, as a crash in the middle of an append leaves it:
		// a read-only instance reads around it, it never "repairs" it)
		if c.Param("torntail", 0) == 1 {
			if f, err := os.OpenFile(x.W.Drive, os.O_APPEND|os.O_WRONLY, 0o600); err == nil {
				var hb bytes.Buffer
				tw := tar.NewWriter(&hb)
				tw.WriteHeader(&tar.Header{Typeflag: tar.TypeReg, Name: "/torn-by-a-crash", Size: 2000, Mode: 0o644, Format: tar.FormatPAX, PAXRecords: map[string]string{"STFS.Action": "CREATE"}})
				f.Write(hb.Bytes()[:300+int(c.Seed%200)])
				f.Close()
			}
		}
		// 2. writable twin over copies
		tape0, _ := os.ReadFile(x.W.Drive)
		td, err := x.W.PrefixDrive(tape0, len(tape0))
		if err != nil {
			return &Violation{Prop: c.Prop, Oracle: "harness", Detail: err.Error()}
		}
		ti := x.W.NewIndexPath()
		copyFile(x.W.Index, ti)
		twin, err := x.W.Open(OpenOpts{Drive: td, Index: ti})
		if twin != nil {
			defer twin.Close()
		}
		if err != nil {
			return &Violation{Prop: c.Prop, Oracle: "harness", Detail: "twin: " + err.Error()}
		}
		// 2b. a read-only first open that cannot find a root (no drive at all, or a tape that cannot be
		// indexed with these keys) fails with a permission error and creates / appends nothing
		if rf := c.Param("rofail", 0); rf != 0 {
			fo := OpenOpts{ReadOnly: true, NoWriteOps: c.Param("composition", 0) == 1, Index: x.W.NewIndexPath()}
			what := ""
			switch {
			case rf == 1:
				fo.Drive = filepath.Join(x.W.Dir, "no-such-drive.tar")
				what = "no drive file"
			case c.Cfg.Encryption != "" || c.Cfg.Signature != "":
				fo.Drive, fo.KeySet = td, 1
				what = "a tape written under other keys"
			}
			if what != "" {
				before, _ := os.ReadFile(fo.Drive)
				fst, ferr := x.W.Open(fo)
				if fst != nil {
					fst.Close()
				}
				after, aerr := os.ReadFile(fo.Drive)
				x.Stats.Add("read_only_first_open_without_root", 1)
				if rf == 1 && aerr == nil {
					return &Violation{Prop: c.Prop, Oracle: "read-only-creates-drive", Detail: fmt.Sprintf("read-only first open over %s created the drive (%d bytes), Initialize returned %v", what, len(after), ferr)}
				}
				if rf != 1 && !bytes.Equal(before, after) {
					return &Violation{Prop: c.Prop, Oracle: "read-only-changes-tape", Detail: fmt.Sprintf("read-only first open over %s changed the tape (%d -> %d bytes), Initialize returned %v", what, len(before), len(after), ferr)}
				}
				if ferr == nil || !errors.Is(ferr, os.ErrPermission) {
					return &Violation{Prop: c.Prop, Oracle: "mutator-not-refused-with-permission-error", Detail: fmt.Sprintf("read-only first open over %s: Initialize would have to create a root and must fail with a permission error, it returned %v", what, ferr)}
				}
			}
		}
		// 2c. a read-only instance over an index that is PRESENT but behind the tape (crash between append
		// and index update): only a missing index may be built on first open, a stale one stays as it is
		if staleIdx != "" {
			so := OpenOpts{ReadOnly: true, NoWriteOps: c.Param("composition", 0) == 1, Index: staleIdx}
			pre := so
			pre.NoInit = true
			rowsBefore := ""
			if pst, err := x.W.Open(pre); pst != nil {
				if err == nil {
					rowsBefore = dumpAllRows(pst)
				}
				pst.Close()
			}
			tapeBefore, _ := os.ReadFile(x.W.Drive)
			sst, serr := x.W.Open(so)
			if sst != nil {
				rowsAfter := dumpAllRows(sst)
				Observe(sst.FS, "/", ObsOpts{})
				rowsAfterReads := dumpAllRows(sst)
				sst.Close()
				tapeAfter, _ := os.ReadFile(x.W.Drive)
				x.Stats.Add("read_only_open_over_stale_index", 1)
				if serr == nil && rowsBefore != "" && rowsAfter != rowsBefore {
					return &Violation{Prop: c.Prop, Oracle: "read-only-changes-index", Detail: "opening a read-only instance over an existing index that is behind the tape changed the index rows (only a missing index may be built)"}
				}
				if serr == nil && rowsAfterReads != rowsAfter {
					return &Violation{Prop: c.Prop, Oracle: "read-only-changes-index", Detail: "reading through a read-only instance over a stale index changed the index rows"}
				}
				if !bytes.Equal(tapeBefore, tapeAfter) {
					return &Violation{Prop: c.Prop, Oracle: "read-only-changes-tape", Detail: "read-only instance over a stale index changed the tape"}
				}
			}
		}
		// 3. the read-only instance
		oo := OpenOpts{ReadOnly: true, NoWriteOps: c.Param("composition", 0) == 1}
		if c.Param("index_absent", 0) == 1 {
			oo.Index = x.W.NewIndexPath()
		}
		ro, err := x.W.Open(oo)
		if ro != nil {
			defer ro.Close()
		}
		if err != nil {
			return &Violation{Prop: c.Prop, Oracle: "read-only-open-fails", Detail: err.Error()}
		}
		x.St = ro
		digest := func() string {
			b, _ := os.ReadFile(x.W.Drive)
			return fmt.Sprintf("%d:%x", len(b), sha256.Sum256(b))
		}
		tape1, rows1 := digest(), dumpAllRows(ro)
		if tape1 != fmt.Sprintf("%d:%x", len(tape0), sha256.Sum256(tape0)) {
			return &Violation{Prop: c.Prop, Oracle: "read-only-open-changes-tape", Detail: "opening a read-only instance changed the tape"}
		}
		mut0 := map[string]int{}
		for k, v := range x.W.Dev.IndexMut {
			mut0[k] = v
		}
		wo0 := x.W.Dev.WriterOpens
		ex, tx := NewExec(ro.FS, x.S), NewExec(twin.FS, x.S)
		defer ex.CloseAll()
		defer tx.CloseAll()
		nMut, nRead := 0, 0
		for i, op := range c.Progs[1] {
			if op.K == "sleep" || op.K == "reopen" || op.K == "rebuild" {
				continue
			}
			res := ex.Do(op)
			if x.W.Dev.WriterOpens != wo0 {
				return &Violation{Prop: c.Prop, Oracle: "read-only-opens-drive-for-writing", Step: i, Detail: op.String()}
			}
			for k, v := range x.W.Dev.IndexMut {
				if v != mut0[k] {
					return &Violation{Prop: c.Prop, Oracle: "read-only-mutates-index", Step: i, Detail: fmt.Sprintf("%s called the index store's %s", op, k)}
				}
			}
			if d := digest(); d != tape1 {
				return &Violation{Prop: c.Prop, Oracle: "read-only-changes-tape", Step: i, Detail: fmt.Sprintf("%s: tape %s -> %s", op, tape1, d)}
			}
			if r := dumpAllRows(ro); r != rows1 {
				return &Violation{Prop: c.Prop, Oracle: "read-only-changes-index", Step: i, Detail: fmt.Sprintf("%s changed the index rows", op)}
			}
			if isExplicitMutator(op.K) && res.Class != "nohandle" {
				nMut++
				// writing to a directory handle is refused as such on any filesystem
				if res.Class != "perm" && !(strings.HasPrefix(op.K, "h.") && res.Class == "isdir") {
					return &Violation{Prop: c.Prop, Oracle: "mutator-not-refused-with-permission-error", Step: i, Detail: fmt.Sprintf("%s on a read-only filesystem: %s %s", op, res.Class, res.Err)}
				}
			}
			if isPureRead(op.K) {
				tr := tx.Do(op)
				if res.Class == "nohandle" || tr.Class == "nohandle" {
					continue
				}
				nRead++
				if res.Info != nil && tr.Info != nil && (tr.Info.Name == "/" || tr.Info.Name == ".") {
					// the root's own name depends on whether the index was rebuilt (C01's finding KF5), not on read-only mode
					res.Info.Name, tr.Info.Name = "/", "/"
				}
				if d := diffRes(res, tr); d != "" {
					return &Violation{Prop: c.Prop, Oracle: "read-differs-from-writable-twin:" + op.K, Step: i, Detail: fmt.Sprintf("%s: read-only %s", op, d)}
				}
			} else if op.K == "openfile" {
				// keep handle numbering aligned: open the twin's handle read-only
				if res.Class == "ok" {
					tx.Do(Op{K: "open", P: op.P, H: op.H})
				}
			}
		}
		if nMut >= 3 && nRead >= 2 {
			st.Nontrivial(fmt.Sprintf("%d|%d|%s", c.Param("composition", 0), c.Param("index_absent", 0), opKinds(c.Progs[1])))
			st.Sample(fmt.Sprintf("cfg=%s composition=%d index_absent=%d populate:\n%sread-only history:\n%s", c.Cfg, c.Param("composition", 0), c.Param("index_absent", 0), opsString(c.Progs[0]), opsString(c.Progs[1])))
		}
		st.Add("mutators_refused", int64(nMut))
		st.Add("reads_compared", int64(nRead))
		return nil
	})
}

func diffRes(a, b Res) string {
	if a.Class != b.Class {
		return fmt.Sprintf("class %s (%s), twin %s (%s)", a.Class, a.Err, b.Class, b.Err)
	}
	if a.N != b.N || a.EOF != b.EOF || !bytes.Equal(a.Data, b.Data) || a.Str != b.Str {
		return fmt.Sprintf("n=%d eof=%v data=%s str=%q, twin n=%d eof=%v data=%s str=%q", a.N, a.EOF, sumOf(a.Data), a.Str, b.N, b.EOF, sumOf(b.Data), b.Str)
	}
	if (a.Info == nil) != (b.Info == nil) || (a.Info != nil && *a.Info != *b.Info) {
		return fmt.Sprintf("info %+v, twin %+v", a.Info, b.Info)
	}
	x, y := append([]string(nil), a.Names...), append([]string(nil), b.Names...)
	sort.Strings(x)
	sort.Strings(y)
	if strings.Join(x, "\x00") != strings.Join(y, "\x00") {
		return fmt.Sprintf("names %v, twin %v", x, y)
	}
	return ""
}
