package sim

import (
	"fmt"
	"os"
	"testing"
	"time"
)

// DumpRows returns all rows of the index (tombstones included) in a stable form.
func DumpRows(st *Stack) []string {
	db := st.MP.VerifDB()
	rows, err := db.Query(`select name, linkname, typeflag, deleted, record, block, lastknownrecord, lastknownblock, size, mode, uid, gid, modtime from headers order by name, linkname`)
	if err != nil {
		return []string{"ERR " + err.Error()}
	}
	defer rows.Close()
	var out []string
	for rows.Next() {
		var name, link, mt string
		var tf, del, rec, blk, lr, lb, size, mode, uid, gid int64
		if err := rows.Scan(&name, &link, &tf, &del, &rec, &blk, &lr, &lb, &size, &mode, &uid, &gid, &mt); err != nil {
			out = append(out, "ERR "+err.Error())
			continue
		}
		out = append(out, fmt.Sprintf("%q link=%q type=%c del=%d pos=%d/%d last=%d/%d size=%d mode=%o %d:%d mt=%s", name, link, rune(tf), del, rec, blk, lr, lb, size, mode, uid, gid, mt))
	}
	return out
}

func TestDebug(t *testing.T) {
	p := os.Getenv("VERIF_REPLAY")
	if p == "" {
		t.Skip()
	}
	c, err := readCase(p)
	if err != nil {
		t.Fatal(err)
	}
	st := NewStats()
	v := RunSeq(t, c, st, Relax{}, seqOpts{}, func(x *SeqCtx) *Violation {
		runOps(x, func(i int, op Op, res Res) *Violation {
			fmt.Printf("%d: %s -> %s %s n=%d eof=%v names=%v info=%+v\n", i, op, res.Class, res.Err, res.N, res.EOF, res.Names, res.Info)
			return nil
		})
		tr, probs := Observe(x.St.FS, "/", ObsOpts{Extra: namesOf(c.Ops)})
		fmt.Printf("LIVE TREE:\n%sprobs=%v\nrows:\n", tr, probs)
		for _, r := range DumpRows(x.St) {
			fmt.Println("  ", r)
		}
		rb, err := x.W.Open(OpenOpts{Index: x.W.NewIndexPath()})
		if err != nil {
			fmt.Println("REBUILD ERR", err)
		}
		if rb != nil {
			tr, probs := Observe(rb.FS, "/", ObsOpts{Extra: namesOf(c.Ops)})
			fmt.Printf("REBUILT TREE:\n%sprobs=%v\nrows:\n", tr, probs)
			for _, r := range DumpRows(rb) {
				fmt.Println("  ", r)
			}
			rb.Close()
		}
		b, _ := os.ReadFile(x.W.Drive)
		recs, err := ScanTape(b)
		fmt.Printf("TAPE %d bytes, scan err=%v\n", len(b), err)
		for _, r := range recs {
			fmt.Printf("   off=%d (rec %d blk %d) size=%d type=%c name=%q link=%q pax=%v\n", r.Off, r.Off/512/int64(c.Cfg.RecordSize), r.Off/512%int64(c.Cfg.RecordSize), r.Size, r.Hdr.Typeflag, r.Hdr.Name, r.Hdr.Linkname, r.Hdr.PAXRecords)
		}
		return nil
	})
	fmt.Println("violation:", v)
}

func TestGenOne(t *testing.T) {
	prop := os.Getenv("VERIF_PROP")
	if prop == "" {
		t.Skip()
	}
	idx := envU64("VERIF_IDX", 0)
	seed := mix(envU64("VERIF_SEED", 1), idx)
	r := randNew(seed)
	c := Checks[prop].Gen(r, tierOf(), Relax{})
	c.Prop, c.Seed, c.Tier = prop, seed, tierOf()
	writeCase("/tmp/genone.json", c)
	fmt.Println(c.Cfg, len(c.Ops))
	fmt.Print(opsString(c.Ops))
}

func TestDebugModel(t *testing.T) {
	p := os.Getenv("VERIF_REPLAY")
	if p == "" {
		t.Skip()
	}
	c, _ := readCase(p)
	ref := NewRefFS(func() int64 { return 0 }, 0o777)
	for i, op := range c.Ops {
		e := ref.Apply(op)
		fmt.Printf("%d %s => %+v\n", i, op, e)
	}
	tr, m := ref.Tree()
	fmt.Println(tr, m)
}

func TestDebugForeign(t *testing.T) {
	if os.Getenv("VERIF_FOREIGN") == "" {
		t.Skip()
	}
	for _, style := range []string{"dot", "abs", "top"} {
		c := &Case{Prop: "C17", Seed: 3, Cfg: PlainConfig(20)}
		RunSeq(t, c, NewStats(), Relax{}, seqOpts{NoOpen: true}, func(x *SeqCtx) *Violation {
			ms := []member{{Path: "", Dir: true, Mode: 0o755}, {Path: "d", Dir: true, Mode: 0o755}, {Path: "d/f", Data: &Data{Len: 10, Kind: "text", Tag: 1}, Mode: 0o644}, {Path: "g", Data: &Data{Len: 5, Kind: "text", Tag: 2}, Mode: 0o644}}
			b, _ := writeForeignTar(ms, 4, style, time.Unix(1500000000, 0))
			os.WriteFile(x.W.Drive, b, 0o600)
			st, err := x.W.Open(OpenOpts{})
			fmt.Printf("style=%s root=%q err=%v\n", style, st.Root, err)
			for _, r := range DumpRows(st) {
				fmt.Println("   ", r)
			}
			st.Close()
			return nil
		})
	}
}
