package sim

import (
	"fmt"
	"os"
	"path"
	"sort"
	"strings"

	stfsfs "github.com/pojntfx/stfs/pkg/fs"
	"github.com/spf13/afero"
)

func sysOwner(sys interface{}) (int, int, bool) {
	switch s := sys.(type) {
	case *stfsfs.Stat:
		return int(s.Uid), int(s.Gid), true
	}
	return 0, 0, false
}

// Node is what a user can observe about one entry.
type Node struct {
	Kind  string `json:"kind"`
	Size  int64  `json:"size"`
	Perm  uint32 `json:"perm"`
	Uid   int    `json:"uid"`
	Gid   int    `json:"gid"`
	Mtime int64  `json:"mtime"`
	Link  string `json:"link,omitempty"`
	Sum   string `json:"sum,omitempty"` // content digest (len:sha) of regular files
	Err   string `json:"err,omitempty"` // error while observing the entry
}

// Tree maps cleaned absolute paths to nodes.
type Tree map[string]Node

func (t Tree) String() string {
	ks := make([]string, 0, len(t))
	for k := range t {
		ks = append(ks, k)
	}
	sort.Strings(ks)
	var sb strings.Builder
	for _, k := range ks {
		n := t[k]
		fmt.Fprintf(&sb, "%s %s size=%d perm=%o %d:%d mtime=%d", k, n.Kind, n.Size, n.Perm, n.Uid, n.Gid, n.Mtime)
		if n.Link != "" {
			fmt.Fprintf(&sb, " ->%s", n.Link)
		}
		if n.Sum != "" {
			fmt.Fprintf(&sb, " sum=%s", n.Sum)
		}
		if n.Err != "" {
			fmt.Fprintf(&sb, " ERR=%s", n.Err)
		}
		sb.WriteString("\n")
	}
	return sb.String()
}

// DiffTrees returns human readable differences (empty = equal).
func DiffTrees(an, bn string, a, b Tree, fields func(Node) Node) []string {
	var out []string
	ks := map[string]bool{}
	for k := range a {
		ks[k] = true
	}
	for k := range b {
		ks[k] = true
	}
	keys := make([]string, 0, len(ks))
	for k := range ks {
		keys = append(keys, k)
	}
	sort.Strings(keys)
	for _, k := range keys {
		x, okx := a[k]
		y, oky := b[k]
		switch {
		case !okx:
			out = append(out, fmt.Sprintf("%s: only in %s (%+v)", k, bn, y))
		case !oky:
			out = append(out, fmt.Sprintf("%s: only in %s (%+v)", k, an, x))
		default:
			if fields != nil {
				x, y = fields(x), fields(y)
			}
			if x != y {
				out = append(out, fmt.Sprintf("%s: %s=%+v %s=%+v", k, an, x, bn, y))
			}
		}
	}
	return out
}

func nodeOf(fi os.FileInfo) Node {
	in := infoOf(fi)
	return Node{Kind: in.Kind, Size: in.Size, Perm: in.Perm, Uid: in.Uid, Gid: in.Gid, Mtime: in.Mtime}
}

// ObsOpts tunes the observation.
type ObsOpts struct {
	NoContent bool
	Extra     []string // additional names to Stat directly (names the history used)
}

// Observe walks the filesystem from root with Open+Readdir(-1), stats every
// entry, reads every regular file completely and records link targets.
// Problems (listing errors, cycles, duplicates) are returned separately.
func Observe(fs afero.Fs, root string, o ObsOpts) (Tree, []string) {
	t := Tree{}
	var probs []string
	var walk func(dir string, depth int)
	seen := map[string]bool{}
	walk = func(dir string, depth int) {
		if depth > 24 {
			probs = append(probs, "walk: depth limit at "+dir)
			return
		}
		f, err := fs.Open(dir)
		if err != nil {
			probs = append(probs, fmt.Sprintf("open dir %q: %v", dir, err))
			return
		}
		fis, err := f.Readdir(-1)
		f.Close()
		if err != nil {
			probs = append(probs, fmt.Sprintf("readdir %q: %v", dir, err))
			return
		}
		sort.Slice(fis, func(i, j int) bool { return fis[i].Name() < fis[j].Name() })
		for _, fi := range fis {
			p := path.Join(dir, fi.Name())
			if seen[p] {
				probs = append(probs, fmt.Sprintf("listed twice: %q", p))
				continue
			}
			seen[p] = true
			n := nodeOf(fi)
			// cross-check with Stat
			sfi, err := fs.Stat(p)
			if err != nil {
				n.Err = "stat: " + classify(err)
			} else {
				sn := nodeOf(sfi)
				if sn != n {
					// keep the Stat view but flag the disagreement
					probs = append(probs, fmt.Sprintf("listing of %q disagrees with Stat: listed=%+v stat=%+v", p, n, sn))
				}
			}
			if lr, ok := fs.(afero.LinkReader); ok {
				if l, err := lr.ReadlinkIfPossible(p); err == nil && l != "" {
					n.Link = l
				}
			}
			if n.Kind == "file" && !o.NoContent && n.Err == "" {
				b, err := ReadAll(fs, p)
				if err != nil {
					n.Err = "read: " + err.Error()
				}
				n.Sum = sumOf(b)
			}
			t[p] = n
			if n.Kind == "dir" && n.Link == "" {
				walk(p, depth+1)
			}
		}
	}
	rfi, err := fs.Stat(root)
	if err != nil {
		probs = append(probs, fmt.Sprintf("stat root %q: %v", root, err))
		return t, probs
	}
	t[path.Clean("/"+root)] = nodeOf(rfi)
	walk(root, 0)
	for _, x := range o.Extra {
		p := path.Clean("/" + x)
		fi, err := fs.Stat(x)
		_, listed := t[p]
		if err == nil && !listed {
			n := nodeOf(fi)
			n.Err = "unreachable: Stat succeeds but no listing from the root reaches it"
			t[p] = n
		}
	}
	return t, probs
}
