package sim

import (
	"bytes"
	"fmt"
	"os/exec"
)

func execTar(drive string) (int, error) {
	cmd := exec.Command("tar", "-t", "-i", "-f", drive)
	var so, se bytes.Buffer
	cmd.Stdout, cmd.Stderr = &so, &se
	if err := cmd.Run(); err != nil {
		return 0, fmt.Errorf("tar -t -i: %v: %s", err, se.String())
	}
	return bytes.Count(so.Bytes(), []byte("\n")), nil
}
