package sim

import (
	"archive/tar"
	"bytes"
	"errors"
	"fmt"
	"io"
	"io/fs"
	"math/rand/v2"
	"os"
	"sort"
	"strings"
	"testing"
	"time"

	"github.com/pojntfx/stfs/pkg/compression"
	"github.com/pojntfx/stfs/pkg/config"
)

// chunkSource is a caller-supplied data source that returns short reads.
type chunkSource struct {
	r     *bytes.Reader
	chunk int
	reads *int64
}

func (c *chunkSource) Read(p []byte) (int, error) {
	if c.chunk > 0 && len(p) > c.chunk {
		p = p[:c.chunk]
	}
	*c.reads++
	return c.r.Read(p)
}
func (c *chunkSource) Seek(o int64, w int) (int64, error) { return c.r.Seek(o, w) }
func (c *chunkSource) Close() error                       { return nil }

// writerToSource is a caller-supplied source that also implements io.WriterTo (as *bytes.Reader,
// *strings.Reader and *bytes.Buffer do): io.Copy then hands the whole content over in one Write.
type writerToSource struct {
	*bytes.Reader
}

func (writerToSource) Close() error { return nil }

func contentClasses(r *rand.Rand, rs int) []*Data {
	rec := rs * 512
	sizes := []int{0, 1, 511, 512, 513, rec - 1, rec, rec + 1, 3*rec + 7}
	var out []*Data
	kinds := []string{"zeros", "text", "rand"}
	for i := 0; i < 3; i++ {
		n := sizes[r.IntN(len(sizes))]
		if n > 150000 {
			n = 150000 + r.IntN(100)
		}
		if n < 0 {
			n = 0
		}
		out = append(out, &Data{Len: n, Kind: kinds[r.IntN(3)], Tag: uint32(100 + i + r.IntN(1000)*10)})
	}
	// always one empty and one multi-record candidate across the batch
	if r.Float64() < 0.5 {
		out[0].Len = 0
	}
	return out
}

func restoreTo(st *Stack, from string) ([]byte, error) {
	out := &sink{}
	err := st.Read.Restore(
		func(p string, m fs.FileMode) (io.WriteCloser, error) { return out, nil },
		func(p string, m fs.FileMode) error { return nil },
		from, "", true)
	return out.Bytes(), err
}

func init() {
	Register(&Check{
		ID: "C03", Level: "exploration", Tech: "deterministic simulation over the configuration matrix: real pipeline end to end with simulated short-read sources, both write caches, restart (reopen) before reading, simulated clock for signature times",
		Rule:      "cell = (compression x level x encryption x signature x record size x write cache) drawn per run from the full 8x3x3x3x7x2 matrix; per cell 3 contents from size classes {0,1,511,512,513,record-1,record,record+1,several records} x {zeros,text,random}; written through the filesystem (write cache) and through a batched Operations.Archive with short-read sources, one content replaced by an update, optionally one more replaced by the EMPTY content through the write buffer (O_TRUNC reopen, Truncate(0), empty Write); after a reopen every content is read back through File.Read, Operations.Restore and recovery.Fetch by position and Stat.Size must equal the length; in half of the runs every non-empty content is read again through File.Read and Operations.Restore with one injected drive read error at a seeded position (a read may fail, it never ends cleanly with other bytes); plus (15 % of the runs) single-fault enumeration over a whole-file history at the drive / index / cache seams, judged on contents only: afterwards every file reads as one of the contents ever handed to the filesystem, or fails; plus non-regular (tape) codec parameters at the compression/tar-writer level; non-trivial = a non-plain cell with at least one non-empty content; distinct by cell",
		QuickRuns: 1600, QuickSecs: 70, ThoroughRuns: 12000, ThoroughSecs: 1700,
		Assumptions: []string{"the tape drive itself is not simulated: DriveIsRegular=false is exercised only at the codec / tar-writer parameter level", "configuration x input sampling riding on the simulator for clock, randomness, short reads, restart and crash supervision"},
		Gen: func(r *rand.Rand, tier string, relax Relax) *Case {
			c := &Case{Cfg: GenConfig(r, 0.03), P: map[string]int64{}, S: map[string]string{}}
			c.P["chunk"] = int64([]int{0, 1, 7, 100, 511, 4096}[r.IntN(6)])
			c.P["writerto"] = int64(r.IntN(4) / 3) // the batched archive is fed by sources that implement io.WriterTo
			c.P["sleep"] = int64([]int{0, 1, 3600, 86400 * 400, 86400 * 365 * 20}[r.IntN(5)])
			if r.Float64() < 0.5 {
				c.P["rfault"] = int64(1 + r.IntN(1000))
			}
			if r.Float64() < 0.15 {
				// fault mode: single-fault enumeration over a whole-file history, judged on contents only
				c.S["mode"] = "faults"
				c.P, c.Ops = map[string]int64{"enumerate": 1}, genWholeFileHistory(r, c.Cfg.RecordSize)
				return c
			}
			c.P["emptyvia"] = int64(r.IntN(6)) // 1..3: one content is replaced by the empty content through the write buffer
			for i, d := range contentClasses(r, c.Cfg.RecordSize) {
				c.Ops = append(c.Ops, Op{K: "content", P: fmt.Sprintf("/f%d", i), D: d})
			}
			return c
		},
		Eval: evalC03,
	})
}

// genWholeFileHistory: a short history in which file contents are only ever written as a
// whole (writefile, batched archive), so that every readable content is attributable.
func genWholeFileHistory(r *rand.Rand, rs int) []Op {
	tag := uint32(0x300)
	names := []string{"/a", "/b", "/d/x", "/d/y"}
	pick := func() string { return names[r.IntN(len(names))] }
	data := func() *Data {
		tag++
		return &Data{Len: []int{0, 1, 700, 2000, rs*512 + 1}[r.IntN(5)], Kind: []string{"text", "rand"}[r.IntN(2)], Tag: tag}
	}
	ops := []Op{{K: "mkdir", P: "/d", M: 0o755}, {K: "writefile", P: "/a", D: data()}}
	if r.IntN(2) == 0 {
		ops = append(ops, Op{K: "writefile", P: "/d/x", D: data()})
	}
	for i, n := 0, 1+r.IntN(4); i < n; i++ {
		switch r.IntN(10) {
		case 0, 1, 2, 3:
			ops = append(ops, Op{K: "writefile", P: pick(), D: data()})
		case 4:
			ops = append(ops, Op{K: "rename", P: pick(), Q: pick()})
		case 5:
			ops = append(ops, Op{K: "remove", P: pick()})
		case 6:
			ops = append(ops, Op{K: "chmod", P: pick(), M: 0o600})
		case 7:
			ops = append(ops, Op{K: "readfile", P: pick()})
		case 8:
			tag += 10
			ops = append(ops, Op{K: "archive", P: "/", N: 1 + r.IntN(3), D: &Data{Len: 1 + r.IntN(3000), Kind: "text", Tag: tag}})
		case 9:
			ops = append(ops, Op{K: "reopen", N: r.IntN(2)})
		}
	}
	return ops
}

// evalC03Faults: every single fault point of a whole-file history (sampled down), then with
// injection switched off every file must read as one of the contents that were ever handed to
// the filesystem (or fail): a fault may cost a write, it never produces other bytes.
func evalC03Faults(t *testing.T, c *Case, st *Stats, relax Relax) *Violation {
	allowed := map[string]string{sumOf(nil): "empty"}
	for _, op := range c.Ops {
		switch op.K {
		case "writefile":
			allowed[sumOf(op.D.Bytes())] = op.String()
		case "archive":
			for _, m := range archiveMembers(op) {
				allowed[sumOf(m.D.Bytes())] = m.String()
			}
		}
	}
	var plan []Fault
	post := func(stk *Stack, w *World) *Violation {
		if w.Dev.InitFailed {
			// an instance whose Initialize returned an error promises nothing
			st.Add("not_judged_after_failed_initialize", 1)
			return nil
		}
		if w.Dev.PartialAppend && relax["torn-record-append"] {
			st.Add("masked_by_KF8", 1)
			return nil
		}
		tree, _ := Observe(stk.FS, "/", ObsOpts{})
		var paths []string
		for p := range tree {
			paths = append(paths, p)
		}
		sort.Strings(paths)
		for _, p := range paths {
			n := tree[p]
			if n.Kind != "file" || n.Err != "" || n.Sum == "" {
				continue
			}
			if _, ok := allowed[n.Sum]; !ok {
				return &Violation{Prop: c.Prop, Oracle: "content-never-written", Detail: fmt.Sprintf("cfg=%s faults=%v: after the history %q reads %s without error; no call ever wrote these bytes (contents written: %d)\n%s", c.Cfg, plan, p, n.Sum, len(allowed)-1, opsString(c.Ops))}
			}
			st.Add("contents_attributed_after_fault", 1)
		}
		return nil
	}
	if c.Param("enumerate", 1) == 0 {
		plan = c.Faults
		v, _ := runFaultedPost(t, c, st, relax, plan, nil, post)
		if v != nil && v.Prop == c.Prop && v.Oracle != "content-never-written" {
			return nil // liveness under faults is C10's business
		}
		return v
	}
	var snaps []map[string]int
	if v, _ := runFaultedPost(t, c, st, relax, nil, &snaps, post); v != nil {
		if v.Oracle == "content-never-written" {
			c.P["enumerate"] = 0
			return v
		}
		return nil
	}
	var points []Fault
	prev := map[string]int{}
	for _, sn := range snaps {
		for _, seam := range []string{"drive.write", "drive.read", "index.any", "cache.write", "cache.read", "drive.openfile", "drive.open"} {
			hi := sn[seam]
			if asyncCodec(c.Cfg) && (seam == "drive.read" || seam == "drive.write") && hi > prev[seam]+12 {
				hi = prev[seam] + 12
			}
			for k := prev[seam] + 1; k <= hi; k++ {
				points = append(points, Fault{Seam: seam, K: k})
				if seam == "drive.write" {
					points = append(points, Fault{Seam: seam, K: k, Arg: 1 + (k*37)%400})
				}
			}
		}
		prev = sn
	}
	max := 60
	if c.Tier == "thorough" {
		max = 400
	}
	if len(points) > max {
		step := float64(len(points)) / float64(max)
		var sel []Fault
		for i := 0; i < max; i++ {
			sel = append(sel, points[int(float64(i)*step)])
		}
		points = sel
	}
	for _, f := range points {
		plan = []Fault{f}
		v, dev := runFaultedPost(t, c, st, relax, plan, nil, post)
		st.Add("faulted_history_runs", 1)
		if dev != nil {
			for s, n := range dev.Fired {
				st.Add("fired_"+s, int64(n))
			}
		}
		if v != nil && v.Oracle == "content-never-written" {
			c.Faults, c.P["enumerate"] = plan, 0
			return v
		}
	}
	st.Nontrivial("faults|" + c.Cfg.String() + "|" + opKinds(c.Ops))
	return nil
}

func evalC03(t *testing.T, c *Case, st *Stats, relax Relax) *Violation {
	if c.S["mode"] == "faults" {
		return evalC03Faults(t, c, st, relax)
	}
	return RunSeq(t, c, st, relax, seqOpts{}, func(x *SeqCtx) *Violation {
		mk := func(oracle, detail string) *Violation {
			return &Violation{Prop: c.Prop, Oracle: oracle, Detail: fmt.Sprintf("cfg=%s: %s", c.Cfg, detail)}
		}
		want := map[string][]byte{}
		// 1. through the filesystem (write cache -> update)
		for _, op := range c.Ops {
			b := op.D.Bytes()
			r := x.Ex.Do(Op{K: "writefile", P: op.P, D: op.D})
			if r.Class != "ok" {
				return mk("write-fails", fmt.Sprintf("writing %d bytes to %s: %s", len(b), op.P, r.Err))
			}
			want[op.P] = b
		}
		// 2. batched archive with short-read sources
		var reads int64
		chunk := int(c.Param("chunk", 0))
		members := c.Ops
		i := 0
		if _, err := x.St.Write.Archive(func() (config.FileConfig, error) {
			if i >= len(members) {
				return config.FileConfig{}, io.EOF
			}
			m := members[i]
			i++
			b := m.D.Bytes()
			name := "/a" + m.P[1:]
			want[name] = b
			hdr := &tar.Header{Typeflag: tar.TypeReg, Name: name, Size: int64(len(b)), Mode: 0o600, ModTime: time.Now()}
			return config.FileConfig{
				GetFile: func() (io.ReadSeekCloser, error) {
					if c.Param("writerto", 0) == 1 {
						return writerToSource{bytes.NewReader(b)}, nil
					}
					return &chunkSource{r: bytes.NewReader(b), chunk: chunk, reads: &reads}, nil
				},
				Info: hdr.FileInfo(), Path: name,
			}, nil
		}, c.Cfg.Level, false, false); err != nil {
			return mk("archive-fails", err.Error())
		}
		st.Add("short_read_source_reads", reads)
		// 3. replace one content (update path), after advancing the clock
		if d := c.Param("sleep", 0); d > 0 {
			x.Ex.Do(Op{K: "sleep", O: d})
		}
		nd := &Data{Len: (c.Ops[0].D.Len*2 + 13) % 40000, Kind: "rand", Tag: 0xABCD}
		if r := x.Ex.Do(Op{K: "writefile", P: "/f1", D: nd}); r.Class != "ok" {
			return mk("rewrite-fails", r.Err)
		}
		want["/f1"] = nd.Bytes()
		// 3b. empty content that goes through the write buffer (an update record whose encoded
		// stream is not empty although the content is): O_TRUNC reopen, Truncate(0), empty Write
		switch c.Param("emptyvia", 0) {
		case 1:
			x.Ex.Do(Op{K: "openfile", P: "/f2", H: 71, F: os.O_WRONLY | os.O_TRUNC, M: 0o644})
			if r := x.Ex.Do(Op{K: "h.close", H: 71}); r.Class != "ok" {
				return mk("rewrite-fails", "O_TRUNC reopen + close: "+r.Err)
			}
			want["/f2"] = nil
		case 2:
			x.Ex.Do(Op{K: "openfile", P: "/f0", H: 72, F: os.O_RDWR, M: 0o644})
			x.Ex.Do(Op{K: "h.truncate", H: 72, O: 0})
			if r := x.Ex.Do(Op{K: "h.close", H: 72}); r.Class != "ok" {
				return mk("rewrite-fails", "Truncate(0) + close: "+r.Err)
			}
			want["/f0"] = nil
		case 3:
			x.Ex.Do(Op{K: "create", P: "/f2", H: 73})
			x.Ex.Do(Op{K: "h.write", H: 73, D: &Data{Len: 0, Kind: "zeros"}})
			if r := x.Ex.Do(Op{K: "h.close", H: 73}); r.Class != "ok" {
				return mk("rewrite-fails", "Create + empty Write + close: "+r.Err)
			}
			want["/f2"] = nil
		}
		// 4. restart, then read everything back three ways
		x.St.Close()
		stk, err := x.W.Open(OpenOpts{})
		if stk != nil {
			x.St = stk
		}
		if err != nil {
			return mk("reopen-fails", err.Error())
		}
		x.Ex = NewExec(stk.FS, x.S)
		rows, err := rawRows(stk)
		if err != nil {
			return &Violation{Prop: c.Prop, Oracle: "harness", Detail: err.Error()}
		}
		pos := map[string]rawRow{}
		for _, r := range rows {
			if r.Deleted == 0 {
				pos[cleanAbs(r.Name)] = r
			}
		}
		nonEmpty := 0
		for _, p := range sortedKeys(want) { // never in map order: the order of the calls is part of the run
			b := want[p]
			if len(b) > 0 {
				nonEmpty++
			}
			r := x.Ex.Do(Op{K: "readfile", P: p})
			if r.Class != "ok" {
				return mk("read-fails", fmt.Sprintf("%s (%d bytes): %s", p, len(b), r.Err))
			}
			if !bytes.Equal(r.Data, b) {
				return mk("read-differs", fmt.Sprintf("%s: wrote %s, File.Read returns %s", p, sumOf(b), sumOf(r.Data)))
			}
			s := x.Ex.Do(Op{K: "stat", P: p})
			if s.Class != "ok" || s.Info.Size != int64(len(b)) {
				return mk("size-differs", fmt.Sprintf("%s: content length %d, Stat reports %+v %s", p, len(b), s.Info, s.Err))
			}
			got, err := restoreTo(stk, p)
			if err != nil {
				return mk("restore-fails", fmt.Sprintf("%s (%d bytes): %v", p, len(b), err))
			}
			if !bytes.Equal(got, b) {
				return mk("restore-differs", fmt.Sprintf("%s: wrote %s, Operations.Restore returns %s", p, sumOf(b), sumOf(got)))
			}
			row, ok := pos[p]
			if !ok {
				return mk("row-missing", p)
			}
			got, err = fetchAt(stk, row.Rec, row.Blk)
			if err != nil {
				return mk("fetch-fails", fmt.Sprintf("%s at (%d,%d): %v", p, row.Rec, row.Blk, err))
			}
			if !bytes.Equal(got, b) {
				return mk("fetch-differs", fmt.Sprintf("%s: wrote %s, recovery.Fetch returns %s", p, sumOf(b), sumOf(got)))
			}
			st.Add("roundtrips_checked", 3)
		}
		// 4b. the same read-back while the drive fails once: a read may fail, it never ends
		// cleanly with anything but the bytes that were written
		if rf := int(c.Param("rfault", 0)); rf > 0 {
			var names []string
			for p, b := range want {
				if len(b) > 0 {
					names = append(names, p)
				}
			}
			sort.Strings(names)
			dev := x.W.Dev
			for _, p := range names {
				b := want[p]
				for _, via := range []string{"File.Read", "Operations.Restore"} {
					read := func() ([]byte, error) {
						if via == "File.Read" {
							r := x.Ex.Do(Op{K: "readfile", P: p})
							if r.Class != "ok" {
								return r.Data, errors.New(r.Err)
							}
							return r.Data, nil
						}
						return restoreTo(stk, p)
					}
					dev.ResetCounts()
					dev.SetPlan(nil)
					if _, err := read(); err != nil {
						dev.Enabled = false
						return mk("read-fails", fmt.Sprintf("%s via %s: %v", p, via, err))
					}
					n := dev.Snapshot()["drive.read"]
					if n == 0 {
						dev.Enabled = false
						continue
					}
					k := 1 + (rf+len(p))%n
					dev.ResetCounts()
					before := dev.Fired["drive.read"]
					dev.SetPlan([]Fault{{Seam: "drive.read", K: k}})
					got, err := read()
					fired := dev.Fired["drive.read"] - before
					dev.Enabled = false
					dev.SetPlan(nil)
					dev.Enabled = false
					st.Add("fired_drive.read", int64(fired))
					if err != nil {
						st.Add("faulted_reads_failed", 1)
						continue
					}
					if !bytes.Equal(got, b) {
						return mk("read-under-fault-differs", fmt.Sprintf("%s: the drive failed at its read %d of %d; %s ended without an error and returned %s, written was %s", p, k, n, via, sumOf(got), sumOf(b)))
					}
					st.Add("faulted_reads_exact", 1)
				}
			}
		}
		// 4c. a write whose restore of the existing content fails (one drive read error), then Close:
		// the file afterwards holds its old content or the old content with the write applied, never
		// a half-restored buffer
		if rf := int(c.Param("rfault", 0)); rf > 0 {
			var names []string
			for p, b := range want {
				if len(b) > 3 {
					names = append(names, p)
				}
			}
			sort.Strings(names)
			if len(names) > 0 {
				p := names[rf%len(names)]
				old := want[p]
				dev := x.W.Dev
				pd := &Data{Len: 3, Kind: "hash", Tag: 0xF38}
				patch := pd.Bytes()
				attempt := func(plan []Fault) (Res, Res) {
					x.Ex.Do(Op{K: "openfile", P: p, H: 81, F: os.O_RDWR, M: 0o644})
					dev.ResetCounts()
					dev.SetPlan(plan)
					w := x.Ex.Do(Op{K: "h.write", H: 81, D: pd})
					dev.SetPlan(nil)
					dev.Enabled = false
					cl := x.Ex.Do(Op{K: "h.close", H: 81})
					return w, cl
				}
				// pilot on a scratch copy of the counts: how many drive reads does the restore make?
				dev.ResetCounts()
				dev.SetPlan(nil)
				x.Ex.Do(Op{K: "readfile", P: p})
				n := dev.Snapshot()["drive.read"]
				dev.Enabled = false
				if n > 0 {
					k := 1 + (rf*7)%n
					w, cl := attempt([]Fault{{Seam: "drive.read", K: k}})
					r := x.Ex.Do(Op{K: "readfile", P: p})
					patched := append(append([]byte(nil), patch...), old[3:]...)
					switch {
					case r.Class != "ok":
						return mk("read-after-failed-write-fails", fmt.Sprintf("%s: write %s, close %s, then reading fails: %s", p, w.Class, cl.Class, r.Err))
					case bytes.Equal(r.Data, old):
						st.Add("failed_write_left_old_content", 1)
					case bytes.Equal(r.Data, patched) && w.Class == "ok" && cl.Class == "ok":
						st.Add("faulted_write_succeeded", 1)
						want[p] = patched
					default:
						return mk("failed-write-corrupts-content", fmt.Sprintf("%s: the drive failed at read %d of %d while the first write restored the existing content (write: %s %s, close: %s %s); afterwards the file reads %s, it held %s (with the write applied it would hold %s)", p, k, n, w.Class, w.Err, cl.Class, cl.Err, sumOf(r.Data), sumOf(old), sumOf(patched)))
					}
				}
			}
		}
		// 5. non-regular (tape) codec parameters
		if v := tapeCodecRoundTrip(c, st, want); v != nil {
			return v
		}
		if nonEmpty > 0 && (c.Cfg.Compression != "" || c.Cfg.Encryption != "" || c.Cfg.Signature != "") {
			st.Nontrivial(c.Cfg.String())
		}
		var sb strings.Builder
		for _, op := range c.Ops {
			fmt.Fprintf(&sb, "%s=%d%s ", op.P, op.D.Len, op.D.Kind[:1])
		}
		st.Sample(fmt.Sprintf("cfg=%s chunk=%d clock+%ds contents: %s", c.Cfg, chunk, c.Param("sleep", 0), sb.String()))
		return nil
	})
}

// tapeCodecRoundTrip exercises compression.Compress/Decompress with
// isRegular=false: either a clean, documented rejection or a byte-exact round trip.
func tapeCodecRoundTrip(c *Case, st *Stats, want map[string][]byte) *Violation {
	for _, p := range sortedKeys(want) {
		b := want[p]
		var buf bytes.Buffer
		w, err := compression.Compress(&buf, c.Cfg.Compression, c.Cfg.Level, false, c.Cfg.RecordSize)
		if err != nil {
			// a configuration that is not supported for tape drives is rejected with
			// an error before anything is written; which error is not specified
			if errors.Is(err, config.ErrCompressionFormatRegularOnly) || errors.Is(err, config.ErrCompressionFormatRequiresLargerRecordSize) {
				st.Add("tape_codec_rejected_documented", 1)
			} else {
				st.Add("tape_codec_rejected_other_error", 1)
			}
			return nil
		}
		if _, err := w.Write(b); err != nil {
			return &Violation{Prop: c.Prop, Oracle: "tape-codec-error", Detail: err.Error()}
		}
		if err := w.Flush(); err != nil {
			return &Violation{Prop: c.Prop, Oracle: "tape-codec-error", Detail: err.Error()}
		}
		if err := w.Close(); err != nil {
			return &Violation{Prop: c.Prop, Oracle: "tape-codec-error", Detail: err.Error()}
		}
		if len(b) == 0 && buf.Len() == 0 {
			continue
		}
		r, err := compression.Decompress(&buf, c.Cfg.Compression)
		if err != nil {
			return &Violation{Prop: c.Prop, Oracle: "tape-codec-decompress", Detail: fmt.Sprintf("cfg=%s %s: %v", c.Cfg, p, err)}
		}
		got, err := io.ReadAll(r)
		if err != nil || !bytes.Equal(got, b) {
			return &Violation{Prop: c.Prop, Oracle: "tape-codec-differs", Detail: fmt.Sprintf("cfg=%s %s: wrote %s got %s err=%v", c.Cfg, p, sumOf(b), sumOf(got), err)}
		}
		st.Add("tape_codec_roundtrips", 1)
	}
	return nil
}

// sortedKeys returns the keys of a map in sorted order (map iteration order is randomised per process
// and must never decide the order of calls or which of several violations is reported).
func sortedKeys[V any](m map[string]V) []string {
	ks := make([]string, 0, len(m))
	for k := range m {
		ks = append(ks, k)
	}
	sort.Strings(ks)
	return ks
}
