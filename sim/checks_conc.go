package sim

import (
	"fmt"
	"math/rand/v2"
	"os"
	"strings"
	"sync/atomic"
	"testing"
	"time"

	"github.com/anishathalye/porcupine"
	"github.com/spf13/afero"
)

type histEntry struct {
	Client    int
	Op        Op
	Res       Res
	Call, Ret int64
	Final     Tree
	Probs     []string
}

// genClientPrograms: 2-8 clients, a few API calls each, over one shared and one
// private directory per client.
func genClientPrograms(r *rand.Rand, relax Relax) [][]Op {
	nc := 2 + r.IntN(3)
	if r.Float64() < 0.2 {
		nc = 5 + r.IntN(4)
	}
	shared := []string{"/s", "/s/x", "/s/y", "/t"}
	tag := uint32(0)
	var progs [][]Op
	for c := 0; c < nc; c++ {
		own := fmt.Sprintf("/c%d", c)
		hn := c * 100
		pick := func() string {
			if r.Float64() < 0.7 {
				return shared[r.IntN(len(shared))]
			}
			return []string{own, own + "/f", own + "/d"}[r.IntN(3)]
		}
		var ops []Op
		n := 1 + r.IntN(4)
		for i := 0; i < n; i++ {
			switch r.IntN(11) {
			case 0, 1:
				ops = append(ops, Op{K: "mkdir", P: pick(), M: 0o755})
			case 2:
				ops = append(ops, Op{K: "mkdirall", P: pick() + "/m", M: 0o755})
			case 3, 4: // write a file: create, write, close
				hn++
				tag++
				ops = append(ops, Op{K: "create", P: pick(), H: hn},
					Op{K: "h.write", H: hn, D: &Data{Len: []int{0, 3, 700, 2000}[r.IntN(4)], Kind: "text", Tag: uint32(c)<<16 | tag}},
					Op{K: "h.close", H: hn})
			case 5: // read a whole file in one call, then close
				hn++
				p := pick()
				if relax["nopartialreads"] || r.Float64() < 0.7 {
					ops = append(ops, Op{K: "open", P: p, H: hn}, Op{K: "h.read", H: hn, N: 1 << 16}, Op{K: "h.close", H: hn})
				} else {
					// partial read: the stream stays open across other clients' calls
					ops = append(ops, Op{K: "open", P: p, H: hn}, Op{K: "h.read", H: hn, N: 5}, Op{K: "stat", P: p}, Op{K: "h.close", H: hn})
				}
			case 6:
				ops = append(ops, Op{K: "rename", P: pick(), Q: pick()})
			case 7:
				if r.IntN(3) == 0 {
					ops = append(ops, Op{K: "removeall", P: pick()})
				} else {
					ops = append(ops, Op{K: "remove", P: pick()})
				}
			case 8:
				ops = append(ops, Op{K: "chmod", P: pick(), M: []uint32{0o600, 0o755, 0o640}[r.IntN(3)]})
			case 9:
				ops = append(ops, Op{K: "stat", P: pick()})
			case 10:
				hn++
				ops = append(ops, Op{K: "open", P: []string{"/", "/s", own}[r.IntN(3)], H: hn}, Op{K: "h.readdirnames", H: hn, N: -1}, Op{K: "h.close", H: hn})
			}
		}
		progs = append(progs, ops)
	}
	scopeFilter(progs)
	return progs
}

// scopeFilter enforces the documented scope of C11: an entry that one client
// holds open is not removed, renamed or replaced by a rename of ANOTHER client.
// STFS binds a handle to its path, POSIX to the inode, Windows refuses the call:
// no uniform reference behaviour exists for these interleavings.
func scopeFilter(progs [][]Op) {
	related := func(a, b string) bool {
		return a == b || strings.HasPrefix(a, b+"/") || strings.HasPrefix(b, a+"/")
	}
	for ci, prog := range progs {
		for oi, op := range prog {
			if op.K != "rename" && op.K != "remove" && op.K != "removeall" {
				continue
			}
			conflict := false
			for cj, other := range progs {
				if cj == ci {
					continue
				}
				for _, o := range other {
					if o.K != "create" && o.K != "open" {
						continue
					}
					if op.K == "remove" {
						// a non-recursive Remove can only ever take the entry itself (a
						// directory with an open file below it is not empty)
						if op.P == o.P {
							conflict = true
						}
					} else if related(op.P, o.P) || (op.Q != "" && related(op.Q, o.P)) {
						conflict = true
					}
				}
			}
			if conflict {
				progs[ci][oi] = Op{K: "stat", P: op.P}
			}
		}
	}
}

func init() {
	Register(&Check{
		ID: "C11", Level: "exploration", Tech: "deterministic simulation: seeded cooperative scheduler over real goroutines (lock acquisition, goroutine start and drive-seam yields are scheduling points), exact deadlock detection, porcupine linearizability of the recorded history against RefFS, rebuild restart at the end; plus a free-running -race build of the same programs",
		Rule:      "2-8 client programs of 1-4 API-level operations each (mkdir, mkdirall, create/write/close, open/read/close, rename, remove, removeall, chmod, stat, readdir) over shared and private paths run under a seeded schedule (stickiness and drive-seam preemption probability are swarm parameters); every call's invoke/return is stamped with a global sequence number; oracles: all clients finish (else the wait-for graph), no panic, the history plus the final observed tree is linearizable w.r.t. RefFS (porcupine, 20 s budget, 'unknown' is counted, not reported), and the final state equals a rebuild from the tape; race mode: the same programs free-running in a -race build; non-trivial = at least one context switch inside the run and >= 2 clients touching a shared path; distinct by (programs, context-switch hash)",
		QuickRuns: 2500, QuickSecs: 60, ThoroughRuns: 120000, ThoroughSecs: 1500,
		Assumptions: []string{"reads are whole-file single-call reads while finding KF6 (partially read handle keeps the drive) is open", "porcupine 'Unknown' verdicts are inconclusive and counted"},
		Gen: func(r *rand.Rand, tier string, relax Relax) *Case {
			c := &Case{Cfg: GenConfig(r, 0.7), P: map[string]int64{}, S: map[string]string{}}
			c.P["stick"] = int64(r.IntN(100))
			c.P["yield"] = int64([]int{0, 0, 5, 20, 50}[r.IntN(5)])
			c.Progs = genClientPrograms(r, relax)
			burst := 0.04
			if relax["threads"] {
				burst = 0.4 // free-running mode: real parallelism inside the index store and the drive needs volume
			}
			if r.Float64() < burst {
				// burst template: 3-8 callers, each below its own directory, create / write / close /
				// read back several files: no two calls conflict, so every call must succeed
				c.Progs, c.Ops = nil, nil
				nc := 3 + r.IntN(6)
				for ci := 0; ci < nc; ci++ {
					own := fmt.Sprintf("/c%d", ci)
					c.Ops = append(c.Ops, Op{K: "mkdir", P: own, M: 0o755})
					var ops []Op
					for k := 0; k < 3+r.IntN(5); k++ {
						h := ci*100 + k + 1
						p := fmt.Sprintf("%s/f%d", own, k)
						ops = append(ops, Op{K: "create", P: p, H: h}, Op{K: "h.write", H: h, D: &Data{Len: 1 + r.IntN(900), Kind: "text", Tag: uint32(ci)<<16 | uint32(k)}}, Op{K: "h.close", H: h},
							Op{K: "open", P: p, H: h}, Op{K: "h.read", H: h, N: 1 << 16}, Op{K: "h.close", H: h})
					}
					c.Progs = append(c.Progs, ops)
				}
				return c
			}
			if r.Float64() < 0.06 {
				// late-reader template: a handle opened while the file is empty (or short) is read
				// only after another caller has rewritten the file: the read sees the file as it is
				// at the time of the read, whatever the handle remembered from its open
				d0 := []int{0, 0, 3}[r.IntN(3)]
				c.Ops = []Op{{K: "mkdir", P: "/s", M: 0o755}, {K: "writefile", P: "/t", D: &Data{Len: d0, Kind: "text", Tag: 0x7780}}}
				c.Progs = [][]Op{
					{{K: "open", P: "/t", H: 1}, {K: "stat", P: "/s"}, {K: "h.read", H: 1, N: 1 << 16}, {K: "h.close", H: 1}},
					{{K: "create", P: "/t", H: 101}, {K: "h.write", H: 101, D: &Data{Len: 1 + r.IntN(2000), Kind: "text", Tag: 0x7781}}, {K: "h.close", H: 101}},
				}
				if r.IntN(2) == 0 {
					c.Progs = append(c.Progs, []Op{{K: "mkdir", P: "/w", M: 0o755}})
				}
				return c
			}
			if t := r.Float64(); t < 0.12 {
				// readers template: several callers read existing files through their own
				// handles at the same time (restore goroutines overlap), one caller writes
				// (/t is exactly one record of the largest record size that is common: 10240 bytes)
				sizes := map[string]int{"/t": []int{3000, 10240}[r.IntN(2)], "/s/f": 700}
				c.Ops = append(c.Ops, Op{K: "mkdir", P: "/s", M: 0o755}, Op{K: "writefile", P: "/t", D: &Data{Len: sizes["/t"], Kind: "text", Tag: 0x7779}},
					Op{K: "writefile", P: "/s/f", D: &Data{Len: sizes["/s/f"], Kind: "rand", Tag: 0x777a}})
				var ps [][]Op
				exact := r.IntN(2) == 0
				for ci := 0; ci < 2+r.IntN(3); ci++ {
					var ops []Op
					for k := 0; k < 1+r.IntN(2); k++ {
						h := ci*100 + k + 1
						p := []string{"/t", "/s/f"}[r.IntN(2)]
						n := 1 << 16
						if exact {
							// every byte, but not one Read more: the restore has delivered everything and has to
							// let go of the drive without being asked again (this is not a partial read)
							n = sizes[p]
						}
						ops = append(ops, Op{K: "open", P: p, H: h}, Op{K: "h.read", H: h, N: n})
						if exact {
							ops = append(ops, Op{K: "stat", P: "/s"})
						}
						ops = append(ops, Op{K: "h.close", H: h})
					}
					ps = append(ps, ops)
				}
				if exact || r.IntN(2) == 0 {
					ps = append(ps, []Op{{K: "mkdir", P: "/w", M: 0o755}, {K: "stat", P: "/t"}})
				}
				c.Progs = ps
			} else if t < 0.2 {
				// shared-handle template: two goroutines use the SAME open file
				d1 := &Data{Len: 1 + r.IntN(3000), Kind: "text", Tag: 0x777b}
				d2 := &Data{Len: 1 + r.IntN(3000), Kind: "rand", Tag: 0x777c}
				c.Progs = [][]Op{
					{{K: "create", P: "/t", H: SharedBase + 1}, {K: "h.write", H: SharedBase + 1, D: d1}, {K: "h.sync", H: SharedBase + 1}, {K: "h.stat", H: SharedBase + 1}},
					{{K: "stat", P: "/t"}, {K: "h.write", H: SharedBase + 1, D: d2}, {K: "h.sync", H: SharedBase + 1}},
				}
				if r.IntN(2) == 0 {
					c.Progs = append(c.Progs, []Op{{K: "mkdir", P: "/w", M: 0o755}})
				}
				if c.P["yield"] == 0 {
					c.P["yield"] = 20
				}
			} else if t < 0.45 {
				// conflict templates: one caller works below a directory that another
				// caller removes or renames at the same time (check-then-act windows)
				child := []Op{{K: "mkdir", P: "/s/x", M: 0o755}}
				switch r.IntN(4) {
				case 1:
					child = []Op{{K: "mkdirall", P: "/s/x/m", M: 0o755}}
				case 2:
					child = []Op{{K: "create", P: "/s/f", H: 901}, {K: "h.close", H: 901}}
				case 3:
					child = []Op{{K: "rename", P: "/t", Q: "/s/t"}}
				}
				parent := []Op{{K: "remove", P: "/s"}}
				switch r.IntN(3) {
				case 0:
					parent = []Op{{K: "rename", P: "/s", Q: "/u"}}
				case 1:
					parent = []Op{{K: "removeall", P: "/s"}}
				}
				c.Progs = append([][]Op{child, parent}, c.Progs[:min(len(c.Progs), 1+r.IntN(2))]...)
				c.Ops = append(c.Ops, Op{K: "mkdir", P: "/s", M: 0o755}, Op{K: "writefile", P: "/t", D: &Data{Len: 10, Kind: "text", Tag: 0x7778}})
				scopeFilter(c.Progs)
			} else
			// sequential setup before the clients start: the shared paths often exist already,
			// so that parent/child and same-entry conflicts are the common case
			if r.Float64() < 0.7 {
				c.Ops = append(c.Ops, Op{K: "mkdir", P: "/s", M: 0o755})
				if r.Float64() < 0.5 {
					c.Ops = append(c.Ops, Op{K: "mkdir", P: "/s/y", M: 0o755})
				}
			}
			if r.Float64() < 0.4 {
				c.Ops = append(c.Ops, Op{K: "writefile", P: "/t", D: &Data{Len: 100, Kind: "text", Tag: 0x7777}})
			}
			return c
		},
		Eval: evalC11,
	})
}

func evalC11(t *testing.T, c *Case, st *Stats, relax Relax) *Violation {
	if len(c.Progs) == 0 {
		return nil
	}
	var hist []histEntry
	var hv *Violation
	var seq atomic.Int64
	finished := false
	var rebuildV *Violation
	out := RunBubble(t, c.Seed, BubbleOpts{Stick: float64(c.Param("stick", 50)) / 100, YieldProb: float64(c.Param("yield", 0)) / 100}, func(s *Sched) {
		w, err := NewWorld(c.Cfg, s)
		if err != nil {
			hv = &Violation{Prop: c.Prop, Oracle: "harness", Detail: err.Error()}
			return
		}
		defer w.Close()
		stk, err := w.Open(OpenOpts{})
		if stk != nil {
			defer stk.Close()
		}
		if err != nil {
			hv = &Violation{Prop: c.Prop, Oracle: "open", Detail: err.Error()}
			finished = true
			return
		}
		shared := &SharedHandles{H: map[int]afero.File{}}
		setup := NewExec(stk.FS, s)
		setup.Shared = shared // a shared handle opened during the setup stays open for the clients
		for _, op := range c.Ops {
			call := seq.Add(1)
			res := setup.Do(op)
			hist = append(hist, histEntry{Client: len(c.Progs) + 1, Op: op, Res: res, Call: call, Ret: seq.Add(1)})
		}
		setup.CloseAll()
		results := make([][]histEntry, len(c.Progs))
		var tasks []*Task
		for ci, prog := range c.Progs {
			ci, prog := ci, prog
			tasks = append(tasks, s.Spawn(fmt.Sprintf("c%d", ci+1), func() {
				ex := NewExec(stk.FS, s)
				ex.Shared = shared
				for _, op := range prog {
					call := seq.Add(1)
					res := ex.Do(op)
					ret := seq.Add(1)
					results[ci] = append(results[ci], histEntry{Client: ci, Op: op, Res: res, Call: call, Ret: ret})
				}
				// leftover handles (a failed open leaves none) are closed as ordinary calls
				for h := range ex.H {
					op := Op{K: "h.close", H: h}
					call := seq.Add(1)
					res := ex.Do(op)
					ret := seq.Add(1)
					results[ci] = append(results[ci], histEntry{Client: ci, Op: op, Res: res, Call: call, Ret: ret})
				}
			}))
		}
		s.Join(tasks)
		for _, r := range results {
			hist = append(hist, r...)
		}
		for h := range shared.H {
			ex := NewExec(stk.FS, s)
			ex.Shared = shared
			op := Op{K: "h.close", H: h}
			call := seq.Add(1)
			res := ex.Do(op)
			hist = append(hist, histEntry{Client: len(c.Progs) + 2, Op: op, Res: res, Call: call, Ret: seq.Add(1)})
		}
		// final observation, after everything
		call := seq.Add(1)
		tree, probs := Observe(stk.FS, "/", ObsOpts{})
		hist = append(hist, histEntry{Client: len(c.Progs), Op: Op{K: "final-tree"}, Call: call, Ret: seq.Add(1), Final: tree, Probs: probs})
		// the final state is reproducible from the tape
		x := &SeqCtx{T: t, S: s, W: w, St: stk, Ex: NewExec(stk.FS, s), Case: c, Stats: st, Relax: Relax{"root-name": true}}
		rebuildV = rebuildEquivalence(x, len(hist), nil)
		finished = true
	})
	st.Add("sched_steps", int64(out.Steps))
	st.Add("context_switches", int64(out.Switches))
	st.Add("preemptions_inside_calls", int64(out.Preempts))
	st.Mark("distinct_interleavings", fmt.Sprintf("%x", out.SwitchHash))
	if len(hist) > 0 && hist[len(hist)-1].Final != nil {
		st.Mark("distinct_final_states", hist[len(hist)-1].Final.String())
	}
	if hv != nil {
		return hv
	}
	if v := outcomeViolation(c.Prop, out, 0); v != nil {
		return v
	}
	if !finished {
		return &Violation{Prop: c.Prop, Oracle: "harness", Detail: "run did not finish: " + out.BubblePanic}
	}
	if len(out.Leaked) > 0 {
		return &Violation{Prop: c.Prop, Oracle: "goroutine-left-blocked", Detail: strings.Join(out.Leaked, ", ")}
	}
	if rebuildV != nil {
		rebuildV.Oracle = "final-state-" + rebuildV.Oracle
		return rebuildV
	}
	// linearizability (outside the bubble: porcupine's timeout uses the real clock)
	if v := judgeLinearizable(c.Prop, hist, false, st); v != nil {
		return v
	}
	shared := 0
	for _, p := range c.Progs {
		for _, o := range p {
			if strings.HasPrefix(o.P, "/s") || strings.HasPrefix(o.P, "/t") {
				shared++
				break
			}
		}
	}
	if out.Switches > len(c.Progs) && shared >= 2 {
		var sb strings.Builder
		for _, p := range c.Progs {
			sb.WriteString(opKinds(p) + ";")
		}
		st.Nontrivial(fmt.Sprintf("%s|%x", sb.String(), out.SwitchHash))
		var ps strings.Builder
		for i, p := range c.Progs {
			fmt.Fprintf(&ps, "client %d:\n%s", i+1, opsString(p))
		}
		st.Sample(fmt.Sprintf("cfg=%s stick=%d%% yield=%d%% switches=%d\n%s", c.Cfg, c.Param("stick", 0), c.Param("yield", 0), out.Switches, ps.String()))
	}
	return nil
}

// judgeLinearizable checks a recorded history (calls stamped with a global event
// sequence number at invocation and return) against the reference model.
// noClock: the history was recorded under the real clock (free-running mode), so
// modification times set by "now" are unspecified.
func judgeLinearizable(prop string, hist []histEntry, noClock bool, st *Stats) *Violation {
	now := int64(946684800) * 1e9
	model := porcupine.Model{
		Init: func() interface{} {
			r := NewRefFS(func() int64 { return now }, 0o777)
			r.UID, r.GID = os.Getuid(), os.Getgid()
			if noClock {
				r.NoClock = true
				r.root.mtimeOK = false
			}
			return r
		},
		Step: func(state, input, output interface{}) (bool, interface{}) {
			ref := state.(*RefFS).Clone()
			e := input.(*histEntry)
			if e.Op.K == "final-tree" {
				if len(e.Probs) > 0 {
					return false, ref
				}
				rt, mask := ref.Tree()
				return len(CompareTree(e.Final, rt, mask)) == 0, ref
			}
			if e.Res.Class == "nohandle" {
				// the harness had no such handle (yet, or any more) when the call was issued: it
				// never reached the filesystem and is not an event of the history
				return true, ref
			}
			exp := ref.Apply(e.Op)
			id, _ := CompareRes(e.Op, e.Res, exp)
			return id == "", ref
		},
		Equal: func(a, b interface{}) bool { return a.(*RefFS).Key() == b.(*RefFS).Key() },
	}
	var ops []porcupine.Operation
	for i := range hist {
		e := &hist[i]
		ops = append(ops, porcupine.Operation{ClientId: e.Client, Input: e, Output: nil, Call: e.Call, Return: e.Ret})
	}
	res := porcupine.CheckOperationsTimeout(model, ops, 20*time.Second)
	switch res {
	case porcupine.Unknown:
		st.Add("linearizability_inconclusive", 1)
	case porcupine.Illegal:
		var sb strings.Builder
		for _, e := range hist {
			if e.Op.K == "final-tree" {
				fmt.Fprintf(&sb, "[%d-%d] final tree: %s probs=%v\n", e.Call, e.Ret, strings.ReplaceAll(e.Final.String(), "\n", "; "), e.Probs)
				continue
			}
			fmt.Fprintf(&sb, "[%d-%d] c%d %s -> %s %s n=%d %s\n", e.Call, e.Ret, e.Client+1, e.Op, e.Res.Class, e.Res.Err, e.Res.N, strings.Join(e.Res.Names, ","))
		}
		return &Violation{Prop: prop, Oracle: "not-linearizable", Detail: "no sequential order of the calls that respects their real-time order explains the results and the final tree:\n" + sb.String()}
	default:
		st.Add("linearizable_histories", 1)
	}
	return nil
}
