package sim

// RefFS: a small in-memory hierarchical filesystem used as the executable
// reference model for C02/C12/C14. Same Op vocabulary as Exec. Where ordinary
// filesystems disagree among themselves (or the property is silent) the model
// marks the output as unspecified instead of picking one behaviour.

import (
	"fmt"
	"os"
	"path"
	"sort"
	"strings"
)

type rnode struct {
	kind     string // dir | file
	perm     uint32
	uid, gid int
	mtime    int64
	mtimeOK  bool // false: implementation may or may not have bumped it
	data     []byte
	children map[string]*rnode
	dirty    int  // open written handles whose content is not yet flushed
	unknown  bool // content no longer determined by the model (write at an unspecified cursor)
}

type rhandle struct {
	n                   *rnode
	path                string
	pos                 int64
	posOK               bool
	read, write, append bool
	buf                 []byte // private view for writable handles (flushed on sync/close)
	hasBuf              bool
	written             bool
	unknown             bool
}

type RefFS struct {
	root *rnode
	Now  func() int64
	UID  int
	GID  int
	H    map[int]*rhandle
	// NoClock: the history was recorded under the real clock; times set from "now" are unspecified
	NoClock bool
}

func NewRefFS(now func() int64, rootPerm uint32) *RefFS {
	return &RefFS{
		root: &rnode{kind: "dir", perm: rootPerm, children: map[string]*rnode{}, mtime: now(), mtimeOK: true},
		Now:  now,
		H:    map[int]*rhandle{},
	}
}

// ExpRes is the model's expectation for one call.
type ExpRes struct {
	Class   string // ok | notexist | exist | isdir | notempty | invalid | perm | fail (any failure) | any (unspecified)
	N       int64
	NOK     bool
	Data    []byte
	DataOK  bool
	EOF     bool // end of file must be signalled by this call
	EOFMay  bool // end of file may be signalled together with the data
	SizeOK  bool // Info.Size is determined
	MtimeOK bool // Info.Mtime is determined
	Info    *Info
	Names   []string // full child set for listings
	NamesOK bool
	Limit   int // >0: at most Limit of Names
}

func split(p string) []string {
	p = path.Clean("/" + p)
	if p == "/" {
		return nil
	}
	return strings.Split(p[1:], "/")
}

// walk returns the node at p, or a failure class.
func (r *RefFS) walk(p string) (*rnode, string) {
	n := r.root
	for _, c := range split(p) {
		if n.kind != "dir" {
			return nil, "notdir"
		}
		ch, ok := n.children[c]
		if !ok {
			return nil, "notexist"
		}
		n = ch
	}
	return n, ""
}

func (r *RefFS) parentOf(p string) (*rnode, string, string) {
	cs := split(p)
	if len(cs) == 0 {
		return nil, "", "root"
	}
	par, cls := r.walk("/" + strings.Join(cs[:len(cs)-1], "/"))
	if cls != "" {
		return nil, "", cls
	}
	if par.kind != "dir" {
		return nil, "", "notdir"
	}
	return par, cs[len(cs)-1], ""
}

func failClass(c string) string {
	switch c {
	case "notdir", "root":
		// POSIX ENOTDIR/EBUSY have no counterpart among the property's
		// error classes: any failure is accepted
		return "fail"
	}
	return c
}

func (r *RefFS) newNode(kind string, perm uint32) *rnode {
	n := &rnode{kind: kind, perm: perm & 0o777, uid: r.UID, gid: r.GID, mtime: r.Now(), mtimeOK: !r.NoClock}
	if kind == "dir" {
		n.children = map[string]*rnode{}
	}
	return n
}

func touchDir(d *rnode) { d.mtimeOK = false }

func (r *RefFS) infoOf(name string, n *rnode) *Info {
	return &Info{Name: name, Kind: n.kind, Size: int64(len(n.data)), Perm: n.perm, Uid: n.uid, Gid: n.gid, Mtime: n.mtime}
}

func (r *RefFS) open(o Op, flag int, perm uint32) ExpRes {
	n, cls := r.walk(o.P)
	acc := flag & (os.O_RDONLY | os.O_WRONLY | os.O_RDWR)
	wr := acc == os.O_WRONLY || acc == os.O_RDWR
	if cls == "" {
		if flag&os.O_CREATE != 0 && flag&os.O_EXCL != 0 {
			return ExpRes{Class: "exist"}
		}
		if n.kind == "dir" {
			if wr || flag&os.O_TRUNC != 0 || flag&os.O_APPEND != 0 {
				return ExpRes{Class: "isdir"}
			}
			if flag&os.O_CREATE != 0 {
				return ExpRes{Class: "any"}
			}
		}
	} else if cls == "notexist" {
		if flag&os.O_CREATE == 0 {
			return ExpRes{Class: "notexist"}
		}
		par, name, pc := r.parentOf(o.P)
		if pc != "" {
			return ExpRes{Class: failClass(pc)}
		}
		n = r.newNode("file", perm)
		par.children[name] = n
		touchDir(par)
	} else {
		return ExpRes{Class: failClass(cls)}
	}
	h := &rhandle{n: n, path: path.Clean("/" + o.P), posOK: true}
	h.read = acc == os.O_RDONLY || acc == os.O_RDWR
	h.write = wr
	h.append = flag&os.O_APPEND != 0 && wr
	if n.kind == "file" && wr && flag&os.O_TRUNC != 0 {
		// the truncation becomes visible in the namespace at the latest on
		// sync/close: until then size/content of the entry are not compared
		h.buf = []byte{}
		h.hasBuf = true
		n.dirty++
	}
	if old, ok := r.H[o.H]; ok {
		r.closeHandle(old)
	}
	r.H[o.H] = h
	return ExpRes{Class: "ok"}
}

func (r *RefFS) view(h *rhandle) []byte {
	if h.hasBuf {
		return h.buf
	}
	return h.n.data
}

func (r *RefFS) ensureBuf(h *rhandle) {
	if !h.hasBuf {
		h.buf = append([]byte(nil), h.n.data...)
		h.hasBuf = true
		h.n.dirty++
	}
}

func (r *RefFS) flush(h *rhandle) {
	if h.hasBuf {
		h.n.data = append([]byte(nil), h.buf...)
		h.n.mtimeOK = false
		h.n.unknown = h.unknown
	}
}

func (r *RefFS) closeHandle(h *rhandle) {
	if h.hasBuf {
		r.flush(h)
		h.n.dirty--
		h.hasBuf = false
	}
}

// Dirty reports paths whose size/content is not comparable right now because a
// written handle has not been synced/closed yet.
func (r *RefFS) Dirty() map[string]bool {
	m := map[string]bool{}
	for _, h := range r.H {
		if h.hasBuf {
			m[h.path] = true
		}
	}
	return m
}

func (r *RefFS) Apply(o Op) ExpRes {
	getH := func() (*rhandle, bool) {
		h, ok := r.H[o.H]
		return h, ok
	}
	switch o.K {
	case "sleep":
		return ExpRes{Class: "ok"}
	case "create":
		return r.open(o, os.O_RDWR|os.O_CREATE|os.O_TRUNC, 0o666)
	case "open":
		return r.open(o, os.O_RDONLY, 0)
	case "openfile":
		return r.open(o, o.F, o.M)
	case "writefile":
		e := r.open(Op{P: o.P, H: -1}, os.O_RDWR|os.O_CREATE|os.O_TRUNC, 0o666)
		if e.Class != "ok" {
			return e
		}
		h := r.H[-1]
		delete(r.H, -1)
		r.closeHandle(h)
		if h.n.kind != "file" {
			return ExpRes{Class: "isdir"}
		}
		if o.D != nil && o.D.Len > 0 {
			h.n.data = o.D.Bytes()
		} else {
			h.n.data = nil
		}
		h.n.mtimeOK = false
		h.n.unknown = false
		return ExpRes{Class: "ok"}
	case "readfile":
		n, cls := r.walk(o.P)
		if cls != "" {
			return ExpRes{Class: failClass(cls)}
		}
		if n.kind == "dir" {
			return ExpRes{Class: "fail"}
		}
		return ExpRes{Class: "ok", Data: n.data, DataOK: n.dirty == 0 && !n.unknown, N: int64(len(n.data)), NOK: n.dirty == 0 && !n.unknown}
	case "mkdir":
		if _, cls := r.walk(o.P); cls == "" {
			return ExpRes{Class: "exist"}
		}
		par, name, pc := r.parentOf(o.P)
		if pc != "" {
			return ExpRes{Class: failClass(pc)}
		}
		par.children[name] = r.newNode("dir", o.M)
		touchDir(par)
		return ExpRes{Class: "ok"}
	case "mkdirall":
		cur := r.root
		for _, c := range split(o.P) {
			if cur.kind != "dir" {
				return ExpRes{Class: "fail"}
			}
			ch, ok := cur.children[c]
			if !ok {
				ch = r.newNode("dir", o.M)
				cur.children[c] = ch
				touchDir(cur)
			}
			cur = ch
		}
		if cur.kind != "dir" {
			return ExpRes{Class: "fail"}
		}
		return ExpRes{Class: "ok"}
	case "remove":
		n, cls := r.walk(o.P)
		if cls != "" {
			return ExpRes{Class: failClass(cls)}
		}
		par, name, pc := r.parentOf(o.P)
		if pc != "" {
			return ExpRes{Class: failClass(pc)}
		}
		if n.kind == "dir" && len(n.children) > 0 {
			return ExpRes{Class: "notempty"}
		}
		delete(par.children, name)
		touchDir(par)
		return ExpRes{Class: "ok"}
	case "removeall":
		_, cls := r.walk(o.P)
		if cls == "notexist" {
			return ExpRes{Class: "ok"}
		}
		if cls != "" {
			return ExpRes{Class: "any"}
		}
		par, name, pc := r.parentOf(o.P)
		if pc != "" {
			return ExpRes{Class: "any"}
		}
		delete(par.children, name)
		touchDir(par)
		return ExpRes{Class: "ok"}
	case "rename":
		src, cls := r.walk(o.P)
		if cls != "" {
			return ExpRes{Class: failClass(cls)}
		}
		sp, sname, pc := r.parentOf(o.P)
		if pc != "" {
			return ExpRes{Class: failClass(pc)}
		}
		a, b := path.Clean("/"+o.P), path.Clean("/"+o.Q)
		if src.kind == "dir" && strings.HasPrefix(b, a+"/") {
			if _, _, pc := r.parentOf(o.Q); pc != "" {
				return ExpRes{Class: "fail"} // EINVAL or ENOENT, whichever is noticed first
			}
			return ExpRes{Class: "invalid"}
		}
		dp, dname, pc := r.parentOf(o.Q)
		if pc != "" {
			return ExpRes{Class: failClass(pc)}
		}
		if a == b {
			return ExpRes{Class: "ok"}
		}
		if src.kind == "dir" && strings.HasPrefix(b, a+"/") {
			return ExpRes{Class: "invalid"}
		}
		if dst, ok := dp.children[dname]; ok {
			if dst.kind != src.kind {
				return ExpRes{Class: "fail"}
			}
			if dst.kind == "dir" && len(dst.children) > 0 {
				return ExpRes{Class: "notempty"}
			}
		}
		delete(sp.children, sname)
		dp.children[dname] = src
		touchDir(sp)
		touchDir(dp)
		// open handles follow the node; fix their recorded paths
		for _, h := range r.H {
			if h.path == a {
				h.path = b
			} else if strings.HasPrefix(h.path, a+"/") {
				h.path = b + h.path[len(a):]
			}
		}
		return ExpRes{Class: "ok"}
	case "chmod":
		n, cls := r.walk(o.P)
		if cls != "" {
			return ExpRes{Class: failClass(cls)}
		}
		n.perm = o.M & 0o777
		return ExpRes{Class: "ok"}
	case "chown":
		n, cls := r.walk(o.P)
		if cls != "" {
			return ExpRes{Class: failClass(cls)}
		}
		n.uid, n.gid = o.U, o.G
		return ExpRes{Class: "ok"}
	case "chtimes":
		n, cls := r.walk(o.P)
		if cls != "" {
			return ExpRes{Class: failClass(cls)}
		}
		n.mtime = o.T2*1e9 + int64(o.N)
		n.mtimeOK = true
		return ExpRes{Class: "ok"}
	case "stat":
		n, cls := r.walk(o.P)
		if cls != "" {
			return ExpRes{Class: failClass(cls)}
		}
		return ExpRes{Class: "ok", Info: r.infoOf(path.Base(path.Clean("/"+o.P)), n), SizeOK: n.kind == "file" && n.dirty == 0 && !n.unknown, MtimeOK: n.mtimeOK}
	case "h.close":
		h, ok := getH()
		if !ok {
			return ExpRes{Class: "nohandle"}
		}
		r.closeHandle(h)
		delete(r.H, o.H)
		return ExpRes{Class: "ok"}
	case "h.sync":
		h, ok := getH()
		if !ok {
			return ExpRes{Class: "nohandle"}
		}
		if h.n.kind == "dir" {
			return ExpRes{Class: "any"}
		}
		r.flush(h)
		return ExpRes{Class: "ok"}
	case "h.write", "h.writestring", "h.writeat":
		h, ok := getH()
		if !ok {
			return ExpRes{Class: "nohandle"}
		}
		if h.n.kind == "dir" || !h.write {
			return ExpRes{Class: "fail"}
		}
		b := o.D.Bytes()
		if o.K == "h.writeat" && o.O < 0 {
			return ExpRes{Class: "fail"}
		}
		if h.unknown {
			// content (and with it the end of the file) is no longer determined
			h.posOK = false
			r.ensureBuf(h)
			return ExpRes{Class: "any"}
		}
		if len(b) == 0 {
			// like write(2)/pwrite(2): writing nothing changes nothing (no hole
			// is created); the cursor after a positioned write is unspecified
			// ... and so is the cursor after an empty write on an O_APPEND handle
			// (write(2) leaves it, in-memory files move it to the end)
			if o.K == "h.writeat" || h.append {
				h.posOK = false
			}
			return ExpRes{Class: "ok", N: 0, NOK: true}
		}
		if o.K == "h.writeat" {
			if h.append {
				// os.File refuses, in-memory files write at the offset
				r.ensureBuf(h)
				h.written = true
				h.posOK = false
				h.unknown = true
				return ExpRes{Class: "any"}
			}
			r.ensureBuf(h)
			h.buf = writeAt(h.buf, b, o.O)
			h.posOK = false // pwrite keeps the cursor, in-memory files move it
			h.written = true
			return ExpRes{Class: "ok", N: int64(len(b)), NOK: true}
		}
		r.ensureBuf(h)
		if h.append {
			h.pos = int64(len(h.buf))
			h.posOK = true
		}
		if !h.posOK {
			h.written = true
			h.unknown = true
			return ExpRes{Class: "any"}
		}
		h.buf = writeAt(h.buf, b, h.pos)
		h.pos += int64(len(b))
		h.written = true
		return ExpRes{Class: "ok", N: int64(len(b)), NOK: true}
	case "h.truncate":
		h, ok := getH()
		if !ok {
			return ExpRes{Class: "nohandle"}
		}
		if h.n.kind == "dir" || !h.write || o.O < 0 {
			return ExpRes{Class: "fail"}
		}
		r.ensureBuf(h)
		if int(o.O) <= len(h.buf) {
			h.buf = h.buf[:o.O]
		} else {
			h.buf = append(h.buf, make([]byte, int(o.O)-len(h.buf))...)
		}
		h.written = true
		return ExpRes{Class: "ok"}
	case "h.read", "h.readat":
		h, ok := getH()
		if !ok {
			return ExpRes{Class: "nohandle"}
		}
		if h.n.kind == "dir" || !h.read {
			return ExpRes{Class: "fail"}
		}
		if o.N <= 0 {
			return ExpRes{Class: "ok", N: 0, NOK: true, DataOK: true}
		}
		if h.unknown || (!h.hasBuf && h.n.unknown) {
			h.posOK = false // how far a read advances depends on the unknown length
			return ExpRes{Class: "any"}
		}
		v := r.view(h)
		pos := h.pos
		if o.K == "h.readat" {
			if o.O < 0 {
				return ExpRes{Class: "fail"}
			}
			pos = o.O
			h.posOK = false
		} else if !h.posOK {
			return ExpRes{Class: "any"}
		}
		if pos >= int64(len(v)) {
			return ExpRes{Class: "ok", N: 0, NOK: true, EOF: true, DataOK: true}
		}
		end := pos + int64(o.N)
		eofMay := false
		if end >= int64(len(v)) {
			eofMay = true
			end = int64(len(v))
		}
		if o.K == "h.read" {
			h.pos = end
		}
		return ExpRes{Class: "ok", N: end - pos, NOK: true, Data: v[pos:end], DataOK: true, EOFMay: eofMay}
	case "h.seek":
		h, ok := getH()
		if !ok {
			return ExpRes{Class: "nohandle"}
		}
		if h.n.kind == "dir" {
			return ExpRes{Class: "any"}
		}
		var base int64
		switch o.W {
		case 0:
		case 1:
			if !h.posOK {
				return ExpRes{Class: "any"}
			}
			base = h.pos
		case 2:
			if h.unknown || (!h.hasBuf && h.n.unknown) {
				h.posOK = false
				return ExpRes{Class: "any"}
			}
			base = int64(len(r.view(h)))
		default:
			return ExpRes{Class: "fail"}
		}
		if base+o.O < 0 {
			return ExpRes{Class: "fail"}
		}
		h.pos = base + o.O
		h.posOK = true
		return ExpRes{Class: "ok", N: h.pos, NOK: true}
	case "h.stat":
		h, ok := getH()
		if !ok {
			return ExpRes{Class: "nohandle"}
		}
		if cur, cls := r.walk(h.path); cls != "" || cur != h.n {
			// the entry was removed (and possibly replaced) while the handle is open:
			// inode-bound and path-bound filesystems report different attributes
			return ExpRes{Class: "any"}
		}
		in := r.infoOf(path.Base(h.path), h.n)
		in.Size = int64(len(r.view(h)))
		return ExpRes{Class: "ok", Info: in, SizeOK: h.n.kind == "file" && !h.unknown && !(!h.hasBuf && h.n.unknown), MtimeOK: h.n.mtimeOK && !h.hasBuf}
	case "h.readdir", "h.readdirnames":
		h, ok := getH()
		if !ok {
			return ExpRes{Class: "nohandle"}
		}
		if h.n.kind != "dir" {
			return ExpRes{Class: "fail"}
		}
		var names []string
		for k := range h.n.children {
			names = append(names, k)
		}
		sort.Strings(names)
		return ExpRes{Class: "ok", Names: names, NamesOK: true, Limit: o.N}
	}
	return ExpRes{Class: "unknown-op"}
}

func writeAt(buf, b []byte, off int64) []byte {
	if int(off) > len(buf) {
		buf = append(buf, make([]byte, int(off)-len(buf))...)
	}
	end := int(off) + len(b)
	if end > len(buf) {
		buf = append(buf, make([]byte, end-len(buf))...)
	}
	copy(buf[off:], b)
	return buf
}

// Tree renders the model in Observe's form. Unspecified fields are reported
// through the returned mask (path -> fields not to compare).
type Mask struct{ Mtime, Content bool }

func (r *RefFS) Tree() (Tree, map[string]Mask) {
	t := Tree{}
	m := map[string]Mask{}
	var rec func(p string, n *rnode)
	rec = func(p string, n *rnode) {
		nd := Node{Kind: n.kind, Perm: n.perm, Uid: n.uid, Gid: n.gid, Mtime: n.mtime}
		mk := Mask{Mtime: !n.mtimeOK}
		if n.kind == "file" {
			nd.Size = int64(len(n.data))
			nd.Sum = sumOf(n.data)
			if n.dirty > 0 || n.unknown {
				mk.Content = true
			}
		}
		t[p] = nd
		m[p] = mk
		for name, ch := range n.children {
			rec(path.Join(p, name), ch)
		}
	}
	rec("/", r.root)
	return t, m
}

// Exists / kind helpers for generators.
func (r *RefFS) Kind(p string) string {
	n, cls := r.walk(p)
	if cls != "" {
		return ""
	}
	return n.kind
}

func (r *RefFS) Paths() (dirs, files []string) {
	t, _ := r.Tree()
	for p, n := range t {
		if n.Kind == "dir" {
			dirs = append(dirs, p)
		} else {
			files = append(files, p)
		}
	}
	sort.Strings(dirs)
	sort.Strings(files)
	return
}

func (r *RefFS) HasOpenHandleUnder(p string) bool {
	p = path.Clean("/" + p)
	for _, h := range r.H {
		if h.path == p || strings.HasPrefix(h.path, p+"/") {
			return true
		}
	}
	return false
}

// Clone returns a deep copy (handles keep pointing at their, possibly
// detached, nodes).
func (r *RefFS) Clone() *RefFS {
	memo := map[*rnode]*rnode{}
	var cp func(n *rnode) *rnode
	cp = func(n *rnode) *rnode {
		if n == nil {
			return nil
		}
		if m, ok := memo[n]; ok {
			return m
		}
		m := *n
		m.data = append([]byte(nil), n.data...)
		memo[n] = &m
		if n.children != nil {
			m.children = make(map[string]*rnode, len(n.children))
			for k, c := range n.children {
				m.children[k] = cp(c)
			}
		}
		return &m
	}
	out := &RefFS{root: cp(r.root), Now: r.Now, UID: r.UID, GID: r.GID, H: map[int]*rhandle{}, NoClock: r.NoClock}
	for id, h := range r.H {
		nh := *h
		nh.n = cp(h.n)
		nh.buf = append([]byte(nil), h.buf...)
		out.H[id] = &nh
	}
	return out
}

// Key is a canonical rendering of the whole model state.
func (r *RefFS) Key() string {
	t, m := r.Tree()
	var sb strings.Builder
	sb.WriteString(t.String())
	ks := make([]string, 0, len(m))
	for k, v := range m {
		ks = append(ks, fmt.Sprintf("%s:%v%v", k, v.Mtime, v.Content))
	}
	sort.Strings(ks)
	sb.WriteString(strings.Join(ks, ","))
	ids := make([]int, 0, len(r.H))
	for id := range r.H {
		ids = append(ids, id)
	}
	sort.Ints(ids)
	for _, id := range ids {
		h := r.H[id]
		fmt.Fprintf(&sb, "|h%d %s pos=%d/%v r%v w%v a%v buf=%v:%s unk=%v kind=%s", id, h.path, h.pos, h.posOK, h.read, h.write, h.append, h.hasBuf, sumOf(h.buf), h.unknown, h.n.kind)
	}
	return sb.String()
}
