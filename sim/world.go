package sim

import (
	"context"
	"encoding/json"
	"errors"
	"fmt"
	"io"
	"os"
	"path/filepath"
	"strings"
	"sync"

	golog "github.com/fclairamb/go-log"
	"github.com/pojntfx/stfs/pkg/cache"
	"github.com/pojntfx/stfs/pkg/config"
	"github.com/pojntfx/stfs/pkg/fs"
	"github.com/pojntfx/stfs/pkg/keys"
	"github.com/pojntfx/stfs/pkg/logging"
	"github.com/pojntfx/stfs/pkg/mtio"
	"github.com/pojntfx/stfs/pkg/operations"
	"github.com/pojntfx/stfs/pkg/persisters"
	"github.com/pojntfx/stfs/pkg/simhook"
	"github.com/pojntfx/stfs/pkg/tape"
	"github.com/pojntfx/stfs/pkg/utility"
)

// ---------------------------------------------------------------- config

type Config struct {
	Compression string `json:"comp"`
	Level       string `json:"lvl"`
	Encryption  string `json:"enc"`
	Signature   string `json:"sig"`
	RecordSize  int    `json:"rs"`
	Cache       string `json:"cache"`
}

func (c Config) String() string {
	n := func(s string) string {
		if s == "" {
			return "none"
		}
		return s
	}
	return fmt.Sprintf("%s/%s/%s/%s/rs%d/%s", n(c.Compression), c.Level, n(c.Encryption), n(c.Signature), c.RecordSize, c.Cache)
}

func PlainConfig(rs int) Config {
	return Config{Level: config.CompressionLevelFastestKey, RecordSize: rs, Cache: config.WriteCacheTypeMemory}
}

// ---------------------------------------------------------------- keys

// KeyPair holds a serialised pair as produced by utility.Keygen.
type KeyPair struct {
	Priv     []byte `json:"priv"`
	Pub      []byte `json:"pub"`
	Password string `json:"password"`
}

// KeyFile is the on-disk cache of key material generated once per build inside
// a bubble (PGP keys must be created at simulated time, see DESIGN A.6).
type KeyFile struct {
	Sets []map[string]KeyPair `json:"sets"` // per set: "enc:age", "enc:pgp", "sig:minisign", "sig:pgp"
}

type parsedKeys struct {
	encRecipient, encIdentity map[string]interface{}
	sigRecipient, sigIdentity map[string]interface{}
}

var (
	keyFile     *KeyFile
	keyFileOnce sync.Once
	keyFileErr  error
)

func keyPath() string {
	if p := os.Getenv("VERIF_KEYS"); p != "" {
		return p
	}
	if w := os.Getenv("VERIF_WORK"); w != "" {
		return w + "/build/keys.json"
	}
	if r := os.Getenv("VERIF_ROOT"); r != "" {
		return r + "/build/keys.json"
	}
	return "/verif/build/keys.json"
}

func loadKeyFile() (*KeyFile, error) {
	keyFileOnce.Do(func() {
		b, err := os.ReadFile(keyPath())
		if err != nil {
			keyFileErr = err
			return
		}
		kf := &KeyFile{}
		if err := json.Unmarshal(b, kf); err != nil {
			keyFileErr = err
			return
		}
		keyFile = kf
	})
	return keyFile, keyFileErr
}

// GenKeyFile generates nsets independent key sets. Must run inside a bubble.
func GenKeyFile(nsets int) (*KeyFile, error) {
	kf := &KeyFile{}
	for i := 0; i < nsets; i++ {
		set := map[string]KeyPair{}
		pw := func(f string) string {
			if f == config.EncryptionFormatPGPKey {
				return "verif" // gopenpgp always locks generated keys
			}
			return ""
		}
		for _, e := range []string{config.EncryptionFormatAgeKey, config.EncryptionFormatPGPKey} {
			priv, pub, err := utility.Keygen(config.PipeConfig{Encryption: e}, config.PasswordConfig{Password: pw(e)})
			if err != nil {
				return nil, fmt.Errorf("keygen enc %s: %w", e, err)
			}
			set["enc:"+e] = KeyPair{Priv: priv, Pub: pub, Password: pw(e)}
		}
		for _, s := range []string{config.SignatureFormatMinisignKey, config.SignatureFormatPGPKey} {
			priv, pub, err := utility.Keygen(config.PipeConfig{Signature: s}, config.PasswordConfig{Password: pw(s)})
			if err != nil {
				return nil, fmt.Errorf("keygen sig %s: %w", s, err)
			}
			set["sig:"+s] = KeyPair{Priv: priv, Pub: pub, Password: pw(s)}
		}
		kf.Sets = append(kf.Sets, set)
	}
	return kf, nil
}

// Keys parses key set i for the formats of cfg. Parsing is cheap (no password).
func Keys(set int, cfg Config) (encRecipient, encIdentity, sigRecipient, sigIdentity interface{}, err error) {
	kf, err := loadKeyFile()
	if err != nil {
		return nil, nil, nil, nil, err
	}
	if cfg.Encryption != "" {
		p, e := parsedPair(kf, set, "enc:"+cfg.Encryption)
		if e != nil {
			return nil, nil, nil, nil, e
		}
		encRecipient, encIdentity = p[0], p[1]
	}
	if cfg.Signature != "" {
		p, e := parsedPair(kf, set, "sig:"+cfg.Signature)
		if e != nil {
			return nil, nil, nil, nil, e
		}
		sigRecipient, sigIdentity = p[0], p[1]
	}
	return
}

var (
	parsedMu    sync.Mutex
	parsedCache = map[string][2]interface{}{}
)

// parsedPair parses (recipient, identity) once per process: minisign's key
// decryption runs scrypt (~0.5 s) even for an empty password.
func parsedPair(kf *KeyFile, set int, which string) ([2]interface{}, error) {
	parsedMu.Lock()
	defer parsedMu.Unlock()
	key := fmt.Sprintf("%d/%s", set, which)
	if p, ok := parsedCache[key]; ok {
		return p, nil
	}
	kp := kf.Sets[set][which]
	format := which[4:]
	var p [2]interface{}
	var err error
	if which[:3] == "enc" {
		if p[0], err = keys.ParseRecipient(format, kp.Pub); err != nil {
			return p, err
		}
		if p[1], err = keys.ParseIdentity(format, kp.Priv, kp.Password); err != nil {
			return p, err
		}
	} else {
		if p[0], err = keys.ParseSignerRecipient(format, kp.Pub); err != nil {
			return p, err
		}
		if p[1], err = keys.ParseSignerIdentity(format, kp.Priv, kp.Password); err != nil {
			return p, err
		}
	}
	parsedCache[key] = p
	return p, nil
}

// ---------------------------------------------------------------- faults

// Fault makes the K-th (1-based) call through a seam fail.
type Fault struct {
	Seam string `json:"seam"`
	K    int    `json:"k"`
	Arg  int    `json:"arg,omitempty"` // e.g. prefix length of a short write
}

var ErrInjected = errors.New("injected fault (simulated I/O error)")

// Devices is the per-world fault plan, call counters and recorders shared by
// all stacks opened over the world's files.
type Devices struct {
	mu      sync.Mutex
	Count   map[string]int // calls per seam
	Fired   map[string]int // faults that actually fired per seam
	plan    map[string]map[int]Fault
	Enabled bool
	sched   *Sched
	yieldIO bool
	// write log of the drive: cumulative file size after each write
	WriteEnds []int64
	// monitors
	NonAppend     []string // writes that did not land at the end of the drive file
	WriterOpens   int
	PartialAppend bool // a call failed after it had appended bytes to the tape
	InitFailed    bool // an Initialize (reopen) returned an error; the instance is used nevertheless
	OpenHandles   int
	IndexMut      map[string]int // mutating index-store calls per method
}

func NewDevices(s *Sched) *Devices {
	return &Devices{Count: map[string]int{}, Fired: map[string]int{}, plan: map[string]map[int]Fault{}, sched: s, IndexMut: map[string]int{}}
}

func (d *Devices) SetPlan(fs []Fault) {
	d.mu.Lock()
	defer d.mu.Unlock()
	d.plan = map[string]map[int]Fault{}
	for _, f := range fs {
		if d.plan[f.Seam] == nil {
			d.plan[f.Seam] = map[int]Fault{}
		}
		d.plan[f.Seam][f.K] = f
	}
	d.Enabled = true
}

func (d *Devices) ResetCounts() {
	d.mu.Lock()
	defer d.mu.Unlock()
	d.Count = map[string]int{}
}

// hit counts a call through seam and reports whether a fault fires.
func (d *Devices) hit(seam string) (Fault, bool) {
	// Preemption points must be reached by the task's own goroutine in a
	// deterministic order. Concurrent codecs (lz4, zstd, pgzip, pbzip2) read and
	// write the drive from helper goroutines with racy read-ahead, so the byte
	// level seams are preemption points only without compression.
	if d.sched != nil && (d.yieldIO || (seam != "drive.read" && seam != "drive.write")) {
		d.sched.Yield(seam)
	}
	d.mu.Lock()
	defer d.mu.Unlock()
	if !d.Enabled {
		return Fault{}, false
	}
	d.Count[seam]++
	if f, ok := d.plan[seam][d.Count[seam]]; ok {
		d.Fired[seam]++
		return f, true
	}
	return Fault{}, false
}

func (d *Devices) Snapshot() map[string]int {
	d.mu.Lock()
	defer d.mu.Unlock()
	m := map[string]int{}
	for k, v := range d.Count {
		m[k] = v
	}
	return m
}

// ---------------------------------------------------------------- drive

type simWriter struct {
	w    io.Writer
	f    *os.File
	d    *Devices
	path string
}

func (sw *simWriter) Write(p []byte) (int, error) {
	if f, ok := sw.d.hit("drive.write"); ok {
		if f.Arg > 0 && f.Arg < len(p) {
			n, _ := sw.w.Write(p[:f.Arg])
			sw.d.noteWrite(sw.path)
			return n, ErrInjected
		}
		return 0, ErrInjected
	}
	var before int64 = -1
	if st, err := os.Stat(sw.path); err == nil {
		before = st.Size()
	}
	n, err := sw.w.Write(p)
	if st, e2 := os.Stat(sw.path); e2 == nil && before >= 0 {
		if st.Size() != before+int64(n) {
			sw.d.mu.Lock()
			sw.d.NonAppend = append(sw.d.NonAppend, fmt.Sprintf("write of %d bytes at size %d left size %d", n, before, st.Size()))
			sw.d.mu.Unlock()
		}
	}
	sw.d.noteWrite(sw.path)
	return n, err
}

func (d *Devices) noteWrite(path string) {
	if st, err := os.Stat(path); err == nil {
		d.mu.Lock()
		d.WriteEnds = append(d.WriteEnds, st.Size())
		d.mu.Unlock()
	}
}

type simReader struct {
	f config.ReadSeekFder
	d *Devices
}

func (sr *simReader) Read(p []byte) (int, error) {
	if _, ok := sr.d.hit("drive.read"); ok {
		return 0, ErrInjected
	}
	return sr.f.Read(p)
}

func (sr *simReader) Seek(off int64, whence int) (int64, error) {
	if _, ok := sr.d.hit("drive.seek"); ok {
		return 0, ErrInjected
	}
	return sr.f.Seek(off, whence)
}

func (sr *simReader) Fd() uintptr { return sr.f.Fd() }

func (w *World) backend(tm *tape.TapeManager) config.BackendConfig {
	d := w.Dev
	return config.BackendConfig{
		GetWriter: func() (config.DriveWriterConfig, error) {
			d.hit("drive.getwriter")
			c, err := tm.GetWriter()
			if err != nil {
				return c, err
			}
			d.mu.Lock()
			d.WriterOpens++
			d.OpenHandles++
			d.mu.Unlock()
			c.Drive = &simWriter{w: c.Drive, d: d, path: w.Drive}
			return c, nil
		},
		CloseWriter: func() error {
			d.hit("drive.closewriter")
			err := tm.Close()
			d.mu.Lock()
			d.OpenHandles--
			d.mu.Unlock()
			return err
		},
		GetReader: func() (config.DriveReaderConfig, error) {
			d.hit("drive.getreader")
			c, err := tm.GetReader()
			if err != nil {
				return c, err
			}
			d.mu.Lock()
			d.OpenHandles++
			d.mu.Unlock()
			c.Drive = &simReader{f: c.Drive, d: d}
			return c, nil
		},
		CloseReader: func() error {
			d.hit("drive.closereader")
			err := tm.Close()
			d.mu.Lock()
			d.OpenHandles--
			d.mu.Unlock()
			return err
		},
		MagneticTapeIO: mtio.MagneticTapeIO{},
	}
}

// OS-level hooks for the drive's stat/open calls (through the overlay).
func (d *Devices) osHooks() *simhook.OsHooks {
	return &simhook.OsHooks{
		Stat: func(name string) (os.FileInfo, error) {
			if _, ok := d.hit("drive.stat"); ok {
				return nil, &os.PathError{Op: "stat", Path: name, Err: ErrInjected}
			}
			return os.Stat(name)
		},
		OpenFile: func(name string, flag int, perm os.FileMode) (*os.File, error) {
			if _, ok := d.hit("drive.openfile"); ok {
				return nil, &os.PathError{Op: "open", Path: name, Err: ErrInjected}
			}
			return os.OpenFile(name, flag, perm)
		},
		Open: func(name string) (*os.File, error) {
			if _, ok := d.hit("drive.open"); ok {
				return nil, &os.PathError{Op: "open", Path: name, Err: ErrInjected}
			}
			return os.Open(name)
		},
	}
}

// ---------------------------------------------------------------- index store

type simIndex struct {
	in       config.MetadataPersister
	d        *Devices
	readOnly bool // monitor: a mutating call is recorded
}

func (x *simIndex) pre(method string, mutating bool) error {
	if mutating {
		x.d.mu.Lock()
		x.d.IndexMut[method]++
		x.d.mu.Unlock()
	}
	if _, ok := x.d.hit("index." + method); ok {
		return ErrInjected
	}
	if _, ok := x.d.hit("index.any"); ok {
		return ErrInjected
	}
	return nil
}

func (x *simIndex) UpsertHeader(ctx context.Context, h *config.Header, init bool) error {
	if err := x.pre("UpsertHeader", true); err != nil {
		return err
	}
	return x.in.UpsertHeader(ctx, h, init)
}
func (x *simIndex) UpdateHeaderMetadata(ctx context.Context, h *config.Header) error {
	if err := x.pre("UpdateHeaderMetadata", true); err != nil {
		return err
	}
	return x.in.UpdateHeaderMetadata(ctx, h)
}
func (x *simIndex) MoveHeader(ctx context.Context, o, n string, r, b int64) error {
	if err := x.pre("MoveHeader", true); err != nil {
		return err
	}
	return x.in.MoveHeader(ctx, o, n, r, b)
}
func (x *simIndex) GetHeaders(ctx context.Context) ([]*config.Header, error) {
	if err := x.pre("GetHeaders", false); err != nil {
		return nil, err
	}
	return x.in.GetHeaders(ctx)
}
func (x *simIndex) GetHeader(ctx context.Context, n string) (*config.Header, error) {
	if err := x.pre("GetHeader", false); err != nil {
		return nil, err
	}
	return x.in.GetHeader(ctx, n)
}
func (x *simIndex) GetHeaderByLinkname(ctx context.Context, n string) (*config.Header, error) {
	if err := x.pre("GetHeaderByLinkname", false); err != nil {
		return nil, err
	}
	return x.in.GetHeaderByLinkname(ctx, n)
}
func (x *simIndex) GetHeaderChildren(ctx context.Context, n string) ([]*config.Header, error) {
	if err := x.pre("GetHeaderChildren", false); err != nil {
		return nil, err
	}
	return x.in.GetHeaderChildren(ctx, n)
}
func (x *simIndex) GetRootPath(ctx context.Context) (string, error) {
	if err := x.pre("GetRootPath", false); err != nil {
		return "", err
	}
	return x.in.GetRootPath(ctx)
}
func (x *simIndex) GetHeaderDirectChildren(ctx context.Context, n string, l int) ([]*config.Header, error) {
	if err := x.pre("GetHeaderDirectChildren", false); err != nil {
		return nil, err
	}
	return x.in.GetHeaderDirectChildren(ctx, n, l)
}
func (x *simIndex) DeleteHeader(ctx context.Context, n string, r, b int64) (*config.Header, error) {
	if err := x.pre("DeleteHeader", true); err != nil {
		return nil, err
	}
	return x.in.DeleteHeader(ctx, n, r, b)
}
func (x *simIndex) GetLastIndexedRecordAndBlock(ctx context.Context, rs int) (int64, int64, error) {
	if err := x.pre("GetLastIndexedRecordAndBlock", false); err != nil {
		return 0, 0, err
	}
	return x.in.GetLastIndexedRecordAndBlock(ctx, rs)
}
func (x *simIndex) PurgeAllHeaders(ctx context.Context) error {
	if err := x.pre("PurgeAllHeaders", true); err != nil {
		return err
	}
	return x.in.PurgeAllHeaders(ctx)
}

// ---------------------------------------------------------------- write cache

type simCache struct {
	cache.WriteCache
	d *Devices
}

func (c *simCache) Write(p []byte) (int, error) {
	if _, ok := c.d.hit("cache.write"); ok {
		return 0, ErrInjected
	}
	return c.WriteCache.Write(p)
}
func (c *simCache) Read(p []byte) (int, error) {
	if _, ok := c.d.hit("cache.read"); ok {
		return 0, ErrInjected
	}
	return c.WriteCache.Read(p)
}
func (c *simCache) Seek(o int64, w int) (int64, error) {
	if _, ok := c.d.hit("cache.seek"); ok {
		return 0, ErrInjected
	}
	return c.WriteCache.Seek(o, w)
}
func (c *simCache) Truncate(n int64) error {
	if _, ok := c.d.hit("cache.truncate"); ok {
		return ErrInjected
	}
	return c.WriteCache.Truncate(n)
}
func (c *simCache) Size() (int64, error) {
	if _, ok := c.d.hit("cache.size"); ok {
		return 0, ErrInjected
	}
	return c.WriteCache.Size()
}

// ---------------------------------------------------------------- world / stack

type World struct {
	Dir    string
	Drive  string
	Index  string
	Cfg    Config
	KeySet int
	Dev    *Devices
	Sched  *Sched
	nidx   int
}

func scratchBase() string {
	if st, err := os.Stat("/dev/shm"); err == nil && st.IsDir() {
		return "/dev/shm"
	}
	return os.TempDir()
}

func NewWorld(cfg Config, s *Sched) (*World, error) {
	dir, err := os.MkdirTemp(scratchBase(), "verif-sim-")
	if err != nil {
		return nil, err
	}
	w := &World{Dir: dir, Drive: filepath.Join(dir, "drive.tar"), Index: filepath.Join(dir, "index.sqlite"), Cfg: cfg, Sched: s}
	w.Dev = NewDevices(s)
	w.Dev.yieldIO = !asyncCodec(cfg)
	detNote("world " + cfg.String())
	simhook.InstallOs(w.Dev.osHooks())
	return w, nil
}

func (w *World) Close() {
	if detOn {
		if b, err := os.ReadFile(w.Drive); err == nil {
			detNote(fmt.Sprintf("tape %d %s", len(b), sumOf(b)))
		}
		w.Dev.mu.Lock()
		cnt := map[string]int{}
		for k, v := range w.Dev.Count {
			// concurrent codecs read ahead / flush from helper goroutines: the
			// number of byte-level drive calls is not a function of the seed
			if asyncCodec(w.Cfg) && (k == "drive.read" || k == "drive.write" || k == "drive.seek") {
				continue
			}
			cnt[k] = v
		}
		detNote(fmt.Sprintf("seams %v fired %v", cnt, w.Dev.Fired))
		w.Dev.mu.Unlock()
	}
	simhook.InstallOs(nil)
	os.RemoveAll(w.Dir)
}

// NewIndexPath returns a fresh (non-existing) index path inside the world.
func (w *World) NewIndexPath() string {
	w.nidx++
	return filepath.Join(w.Dir, fmt.Sprintf("index-%d.sqlite", w.nidx))
}

type OpenOpts struct {
	Index            string // index file ("" = world's live index)
	Drive            string // drive file ("" = world's drive)
	ReadOnly         bool
	NoWriteOps       bool // serve-http composition: writeOps=nil, getFileBuffer=nil
	KeySet           int  // -1 = world's
	NoInit           bool // do not call Initialize
	Cfg              *Config
	RootProp         string
	PlainIndex       bool // do not wrap the persister (no faults/monitor)
	WriteImpliesRead bool
	Overwrite        bool // drive manager created with overwrite=true
}

type Stack struct {
	W     *World
	TM    *tape.TapeManager
	MP    *persisters.MetadataPersister
	Meta  config.MetadataConfig
	Read  *operations.Operations
	Write *operations.Operations
	FS    *fs.STFS
	Root  string
	Cfg   Config
	Drive string
	Index string
	// key material of this stack
	EncRecipient, EncIdentity, SigRecipient, SigIdentity interface{}
	Backend                                              config.BackendConfig
	// header events of the write side (what the legitimate writer signed)
	Events  []*config.HeaderEvent
	InitErr error
}

func (w *World) Open(o OpenOpts) (*Stack, error) {
	heartbeat()
	cfg := w.Cfg
	if o.Cfg != nil {
		cfg = *o.Cfg
	}
	st := &Stack{W: w, Cfg: cfg, Drive: w.Drive, Index: w.Index}
	if o.Index != "" {
		st.Index = o.Index
	}
	if o.Drive != "" {
		st.Drive = o.Drive
	}
	ks := w.KeySet
	if o.KeySet > 0 {
		ks = o.KeySet
	}
	var err error
	st.EncRecipient, st.EncIdentity, st.SigRecipient, st.SigIdentity, err = Keys(ks, cfg)
	if err != nil {
		return nil, fmt.Errorf("keys: %w", err)
	}
	st.TM = tape.NewTapeManager(st.Drive, mtio.MagneticTapeIO{}, cfg.RecordSize, o.Overwrite)
	st.MP = persisters.NewMetadataPersister(st.Index)
	if err := st.MP.Open(); err != nil {
		return nil, fmt.Errorf("index open: %w", err)
	}
	var mp config.MetadataPersister = st.MP
	if !o.PlainIndex {
		mp = &simIndex{in: st.MP, d: w.Dev}
	}
	st.Meta = config.MetadataConfig{Metadata: mp}
	pipes := config.PipeConfig{Compression: cfg.Compression, Encryption: cfg.Encryption, Signature: cfg.Signature, RecordSize: cfg.RecordSize}
	saved := w.Drive
	w2 := *w
	w2.Drive = st.Drive
	_ = saved
	st.Backend = w2.backend(st.TM)
	st.Read = operations.NewOperations(st.Backend, st.Meta, pipes,
		config.CryptoConfig{Recipient: st.SigRecipient, Identity: st.EncIdentity}, func(ev *config.HeaderEvent) {})
	if !o.NoWriteOps {
		st.Write = operations.NewOperations(st.Backend, st.Meta, pipes,
			config.CryptoConfig{Recipient: st.EncRecipient, Identity: st.SigIdentity}, func(ev *config.HeaderEvent) {
				st.Events = append(st.Events, ev)
			})
	}
	var getBuf func() (cache.WriteCache, func() error, error)
	if !o.NoWriteOps {
		getBuf = func() (cache.WriteCache, func() error, error) {
			if _, ok := w.Dev.hit("cache.new"); ok {
				return nil, nil, ErrInjected
			}
			c, cleanup, err := cache.NewCacheWrite(filepath.Join(w.Dir, "wcache"), cfg.Cache)
			if err != nil {
				return nil, nil, err
			}
			return &simCache{WriteCache: c, d: w.Dev}, cleanup, nil
		}
	}
	st.FS = fs.NewSTFS(st.Read, st.Write, st.Meta, cfg.Level, getBuf, o.ReadOnly, o.WriteImpliesRead, func(h *config.Header) {}, nopLogger{})
	if !o.NoInit {
		prop := "/"
		if o.RootProp != "" {
			prop = o.RootProp
		}
		root, err := st.FS.Initialize(prop, os.ModePerm)
		st.Root = root
		st.InitErr = err
		if err != nil {
			return st, fmt.Errorf("initialize: %w", err)
		}
	}
	return st, nil
}

func (st *Stack) Close() {
	if st.MP != nil {
		st.MP.VerifClose()
	}
}

type nopLogger struct{}

func (nopLogger) Info(string, ...interface{})        {}
func (nopLogger) Debug(string, ...interface{})       {}
func (nopLogger) Trace(string, ...interface{})       {}
func (nopLogger) Warn(string, ...interface{})        {}
func (nopLogger) Error(string, ...interface{})       {}
func (nopLogger) Panic(string, ...interface{})       {}
func (l nopLogger) With(...interface{}) golog.Logger { return l }

var _ logging.StructuredLogger = nopLogger{}

func copyFile(src, dst string) error {
	b, err := os.ReadFile(src)
	if err != nil {
		return err
	}
	return os.WriteFile(dst, b, 0o600)
}

func isInjected(err error) bool {
	return err != nil && (errors.Is(err, ErrInjected) || strings.Contains(err.Error(), ErrInjected.Error()))
}

// asyncCodec reports whether the compression format works with helper
// goroutines (racy read-ahead on the drive): lz4 and zstandard with
// concurrency, pgzip, pbzip2.
func asyncCodec(c Config) bool {
	switch c.Compression {
	case "lz4", "zstandard", "parallelgzip", "parallelbzip2":
		return true
	}
	return false
}
