package sim

// Seeded cooperative scheduler. Real goroutines run one at a time between
// yield points (lock acquisition, task start, explicit yields at device seams);
// testing/synctest's Wait gives quiescence, so "who runs next" is always a
// decision of this scheduler and a pure function of the seed.

import (
	"bytes"
	"fmt"
	"math/rand/v2"
	"os"
	"runtime"
	"sort"
	"strconv"
	"strings"
	"sync"
	"testing/synctest"
	"time"

	"github.com/pojntfx/stfs/pkg/simhook"
)

type taskState int

const (
	tsRunning taskState = iota
	tsParked            // runnable when want == nil or want is free
	tsJoin              // waiting for other clients to finish
	tsSleep             // wants the clock advanced
	tsDone
)

type Task struct {
	Name     string
	goid     int64
	wake     chan bool // true = continue, false = abort
	state    taskState
	want     *simhook.Mutex
	shared   bool // want is a shared (read) acquisition
	sleepFor time.Duration
	joinOn   []*Task
	client   bool
	spawned  int
	held     []*simhook.Mutex
	rng      *rand.Rand
	panicVal string
	where    string // last park site
}

type abortSentinel struct{}

type lockInfo struct {
	holder  *Task // exclusive holder
	readers int   // shared holders (read-write mutexes)
	name    string
}

type Sched struct {
	mu       sync.Mutex
	tasks    []*Task
	byGoid   map[int64]*Task
	locks    map[*simhook.Mutex]*lockInfo
	nlocks   int
	rng      *rand.Rand
	seed     uint64
	last     *Task
	stick    float64 // probability to keep running the last task when it is runnable
	Steps    int
	MaxStep  int
	Switches int
	swHash   uint64
	aborted  bool
	// outcome
	Deadlock  string
	Crashes   []string
	Misuse    []string // unlock of unlocked mutex etc.
	YieldProb float64
	Preempts  int
	trace     []string
	traceOn   bool
	anon      int
}

func NewSched(seed uint64, stick float64, yieldProb float64) *Sched {
	return &Sched{
		byGoid:    map[int64]*Task{},
		locks:     map[*simhook.Mutex]*lockInfo{},
		rng:       rand.New(rand.NewPCG(seed, 0x5eed)),
		seed:      seed,
		stick:     stick,
		MaxStep:   50000000, // a backstop only: deadlocks are detected exactly, spinning by the supervisor's watchdog
		YieldProb: yieldProb,
	}
}

func goid() int64 {
	var buf [64]byte
	n := runtime.Stack(buf[:], false)
	// "goroutine 123 ["
	b := buf[:n]
	b = b[len("goroutine "):]
	i := bytes.IndexByte(b, ' ')
	id, _ := strconv.ParseInt(string(b[:i]), 10, 64)
	return id
}

func (s *Sched) cur() *Task {
	id := goid()
	s.mu.Lock()
	t := s.byGoid[id]
	s.mu.Unlock()
	return t
}

func (s *Sched) newTask(name string, client bool) *Task {
	t := &Task{Name: name, wake: make(chan bool, 1), client: client, state: tsParked}
	h := uint64(14695981039346656037)
	for i := 0; i < len(name); i++ {
		h = (h ^ uint64(name[i])) * 1099511628211
	}
	t.rng = rand.New(rand.NewPCG(s.seed, h))
	return t
}

// start launches f as task t. The goroutine parks before running f.
func (s *Sched) start(t *Task, f func()) {
	s.mu.Lock()
	s.tasks = append(s.tasks, t)
	s.mu.Unlock()
	go func() {
		id := goid()
		s.mu.Lock()
		t.goid = id
		s.byGoid[id] = t
		s.mu.Unlock()
		defer func() {
			if r := recover(); r != nil {
				if _, ok := r.(abortSentinel); !ok {
					buf := make([]byte, 4096)
					n := runtime.Stack(buf, false)
					t.panicVal = fmt.Sprintf("%v", r)
					s.mu.Lock()
					s.Crashes = append(s.Crashes, fmt.Sprintf("task %s: panic: %v\n%s", t.Name, r, trimStack(string(buf[:n]))))
					s.mu.Unlock()
				}
			}
			s.mu.Lock()
			t.state = tsDone
			for _, m := range t.held {
				_ = m
			}
			delete(s.byGoid, id)
			s.mu.Unlock()
		}()
		if !<-t.wake {
			panic(abortSentinel{})
		}
		f()
	}()
}

func trimStack(st string) string {
	lines := strings.Split(st, "\n")
	out := []string{}
	for _, l := range lines {
		if strings.Contains(l, "pojntfx/stfs") || strings.Contains(l, "panic") {
			out = append(out, strings.TrimSpace(l))
		}
		if len(out) > 12 {
			break
		}
	}
	return strings.Join(out, " | ")
}

// Spawn starts a client task (used by the harness).
func (s *Sched) Spawn(name string, f func()) *Task {
	t := s.newTask(name, true)
	s.start(t, f)
	return t
}

// Go implements simhook.Scheduler: goroutines started by the code under test.
func (s *Sched) Go(f func()) {
	p := s.cur()
	var name string
	if p != nil {
		s.mu.Lock()
		p.spawned++
		name = fmt.Sprintf("%s.bg%d", p.Name, p.spawned)
		s.mu.Unlock()
	} else {
		s.mu.Lock()
		s.anon++
		name = fmt.Sprintf("anon.bg%d", s.anon)
		s.mu.Unlock()
	}
	t := s.newTask(name, false)
	s.start(t, f)
}

func (s *Sched) park(t *Task, st taskState, where string) {
	s.mu.Lock()
	t.state = st
	t.where = where
	s.mu.Unlock()
	if !<-t.wake {
		panic(abortSentinel{})
	}
}

func (s *Sched) lockName(m *simhook.Mutex) *lockInfo {
	li := s.locks[m]
	if li == nil {
		s.nlocks++
		name := fmt.Sprintf("L%d", s.nlocks)
		// label with the first acquisition site in stfs code
		pcs := make([]uintptr, 12)
		n := runtime.Callers(4, pcs)
		fr := runtime.CallersFrames(pcs[:n])
		for {
			f, more := fr.Next()
			if strings.Contains(f.Function, "pojntfx/stfs/pkg/") && !strings.Contains(f.Function, "simhook") {
				fn := f.Function[strings.LastIndex(f.Function, "/")+1:]
				name = fmt.Sprintf("L%d@%s", s.nlocks, fn)
				break
			}
			if !more {
				break
			}
		}
		li = &lockInfo{name: name}
		s.locks[m] = li
	}
	return li
}

// Lock implements simhook.Scheduler.
func (s *Sched) Lock(m *simhook.Mutex) {
	t := s.cur()
	if t == nil {
		// goroutine unknown to the scheduler: register it on the fly so that
		// mutual exclusion stays exact
		s.mu.Lock()
		s.anon++
		t = s.newTask(fmt.Sprintf("anon%d", s.anon), false)
		t.goid = goid()
		t.state = tsRunning
		s.byGoid[t.goid] = t
		s.tasks = append(s.tasks, t)
		s.Misuse = append(s.Misuse, "untracked goroutine took a lock")
		s.mu.Unlock()
	}
	s.mu.Lock()
	s.lockName(m)
	t.want = m
	s.mu.Unlock()
	s.park(t, tsParked, "lock")
	// the scheduler made us the holder before waking us
}

// TryLock implements simhook.Scheduler: a scheduling point (so that every
// interleaving in which the lock is or is not free at this instant can be
// chosen), then an atomic test-and-take.
func (s *Sched) TryLock(m *simhook.Mutex, shared bool) bool {
	t := s.cur()
	if t == nil {
		return false
	}
	s.Park("trylock")
	s.mu.Lock()
	defer s.mu.Unlock()
	li := s.lockName(m)
	if li.holder != nil || (!shared && li.readers > 0) {
		return false
	}
	if shared {
		li.readers++
		return true
	}
	li.holder = t
	t.held = append(t.held, m)
	return true
}

// RLock implements simhook.Scheduler (shared acquisition).
func (s *Sched) RLock(m *simhook.Mutex) {
	t := s.cur()
	if t == nil {
		return
	}
	s.mu.Lock()
	s.lockName(m)
	t.want = m
	t.shared = true
	s.mu.Unlock()
	s.park(t, tsParked, "rlock")
}

// RUnlock implements simhook.Scheduler.
func (s *Sched) RUnlock(m *simhook.Mutex) {
	s.mu.Lock()
	defer s.mu.Unlock()
	if s.aborted {
		return
	}
	li := s.lockName(m)
	if li.readers <= 0 {
		s.Misuse = append(s.Misuse, "RUnlock of a mutex that is not read-locked "+li.name+" (sync.RWMutex would crash the process)")
		return
	}
	li.readers--
}

// Unlock implements simhook.Scheduler.
func (s *Sched) Unlock(m *simhook.Mutex) {
	s.mu.Lock()
	defer s.mu.Unlock()
	if s.aborted {
		return
	}
	li := s.lockName(m)
	if li.holder == nil {
		s.Misuse = append(s.Misuse, "unlock of unlocked mutex "+li.name+" (sync.Mutex would crash the process)")
		return
	}
	h := li.holder
	for i, x := range h.held {
		if x == m {
			h.held = append(h.held[:i], h.held[i+1:]...)
			break
		}
	}
	li.holder = nil
}

// Yield is an optional preemption point (device seams). Only tasks known to
// the scheduler yield; the decision uses the task's own PRNG stream so that it
// does not depend on which of two overlapping goroutines asks first.
func (s *Sched) Yield(where string) {
	if s.YieldProb <= 0 {
		return
	}
	t := s.cur()
	if t == nil {
		return
	}
	if t.rng.Float64() >= s.YieldProb {
		return
	}
	s.mu.Lock()
	t.want = nil
	s.Preempts++
	s.mu.Unlock()
	s.park(t, tsParked, where)
}

// Park implements simhook.Scheduler: a mandatory scheduling point.
func (s *Sched) Park(where string) {
	t := s.cur()
	if t == nil {
		return
	}
	s.mu.Lock()
	if s.aborted {
		s.mu.Unlock()
		return
	}
	t.want = nil
	s.mu.Unlock()
	s.park(t, tsParked, where)
}

// Sleep advances the simulated clock on behalf of a task.
func (s *Sched) Sleep(d time.Duration) {
	t := s.cur()
	if t == nil {
		time.Sleep(d)
		return
	}
	s.mu.Lock()
	t.want = nil
	t.sleepFor = d
	s.mu.Unlock()
	s.park(t, tsSleep, "sleep")
}

// Join parks the calling task until all given tasks are done.
func (s *Sched) Join(ts []*Task) {
	t := s.cur()
	s.mu.Lock()
	t.want = nil
	t.joinOn = ts
	s.mu.Unlock()
	s.park(t, tsJoin, "join")
}

func (s *Sched) runnableLocked() []*Task {
	var r []*Task
	for _, t := range s.tasks {
		switch t.state {
		case tsParked:
			if t.want == nil {
				r = append(r, t)
			} else if li := s.locks[t.want]; li.holder == nil && (t.shared || li.readers == 0) {
				r = append(r, t)
			}
		case tsSleep:
			r = append(r, t)
		case tsJoin:
			all := true
			for _, j := range t.joinOn {
				if j.state != tsDone {
					all = false
				}
			}
			if all {
				r = append(r, t)
			}
		}
	}
	sort.Slice(r, func(i, j int) bool { return r[i].Name < r[j].Name })
	return r
}

// Loop runs the schedule until main (the root client task) is done. It must be
// called from the bubble's main goroutine.
func (s *Sched) Loop(root *Task) {
	idle := 0
	for {
		synctest.Wait()
		s.mu.Lock()
		if root.state == tsDone {
			s.mu.Unlock()
			break
		}
		r := s.runnableLocked()
		if len(r) == 0 {
			s.mu.Unlock()
			// maybe somebody waits for a timer inside a dependency: let time pass
			if idle < 3 {
				idle++
				time.Sleep([]time.Duration{time.Millisecond, time.Second, time.Hour}[idle-1])
				continue
			}
			s.mu.Lock()
			s.Deadlock = s.describeLocked()
			s.mu.Unlock()
			if os.Getenv("VERIF_VERBOSE") != "" {
				buf := make([]byte, 1<<20)
				n := runtime.Stack(buf, true)
				fmt.Println(string(buf[:n]))
			}
			break
		}
		idle = 0
		s.Steps++
		if s.Steps > s.MaxStep {
			s.Deadlock = "step budget exhausted (no progress within bound): " + s.describeLocked()
			s.mu.Unlock()
			break
		}
		var pick *Task
		if len(r) == 1 {
			pick = r[0]
		} else {
			if s.last != nil && s.rng.Float64() < s.stick {
				for _, t := range r {
					if t == s.last {
						pick = t
					}
				}
			}
			if pick == nil {
				pick = r[s.rng.IntN(len(r))]
			}
		}
		if pick != s.last {
			s.Switches++
			for i := 0; i < len(pick.Name); i++ {
				s.swHash = (s.swHash ^ uint64(pick.Name[i])) * 1099511628211
			}
			s.swHash = (s.swHash ^ 0xff) * 1099511628211
		}
		s.last = pick
		if pick.state == tsParked && pick.want != nil {
			li := s.locks[pick.want]
			if pick.shared {
				li.readers++
			} else {
				li.holder = pick
				pick.held = append(pick.held, pick.want)
			}
			pick.want = nil
			pick.shared = false
		}
		var d time.Duration
		if pick.state == tsSleep {
			d = pick.sleepFor
		}
		pick.state = tsRunning
		if s.traceOn {
			var rn []string
			for _, t := range r {
				rn = append(rn, t.Name+"@"+t.where)
			}
			s.trace = append(s.trace, pick.Name+"/"+pick.where+" of ["+strings.Join(rn, " ")+"]")
		}
		s.mu.Unlock()
		if d > 0 {
			time.Sleep(d)
		}
		pick.wake <- true
	}
	s.abort()
}

// Drain lets background tasks that are still runnable finish (after the root is
// done) and reports tasks that are left blocked.
func (s *Sched) abort() {
	// let runnable background tasks run to completion first (bounded)
	for i := 0; i < 10000 && s.Deadlock == ""; i++ {
		synctest.Wait()
		s.mu.Lock()
		r := s.runnableLocked()
		if len(r) == 0 {
			s.mu.Unlock()
			break
		}
		pick := r[0]
		if pick.state == tsParked && pick.want != nil {
			li := s.locks[pick.want]
			if pick.shared {
				li.readers++
			} else {
				li.holder = pick
				pick.held = append(pick.held, pick.want)
			}
			pick.want = nil
			pick.shared = false
		}
		pick.state = tsRunning
		s.mu.Unlock()
		pick.wake <- true
	}
	synctest.Wait()
	s.mu.Lock()
	s.aborted = true
	var parked []*Task
	for _, t := range s.tasks {
		if t.state == tsParked || t.state == tsJoin || t.state == tsSleep {
			parked = append(parked, t)
		}
	}
	s.mu.Unlock()
	for _, t := range parked {
		t.wake <- false
	}
	synctest.Wait()
}

// Leaked lists tasks that are neither done nor parked: blocked outside the
// scheduler's model (e.g. a restore goroutine stuck in a pipe write).
func (s *Sched) Leaked() []string {
	s.mu.Lock()
	defer s.mu.Unlock()
	var out []string
	for _, t := range s.tasks {
		if t.state != tsDone {
			out = append(out, t.Name)
		}
	}
	return out
}

// HeldLocks lists modelled locks that are still held.
func (s *Sched) HeldLocks() []string {
	s.mu.Lock()
	defer s.mu.Unlock()
	var out []string
	for _, li := range s.locks {
		if li.holder != nil {
			out = append(out, li.name+" held by "+li.holder.Name)
		} else if li.readers > 0 {
			out = append(out, fmt.Sprintf("%s read-locked %d times", li.name, li.readers))
		}
	}
	sort.Strings(out)
	return out
}

func (s *Sched) describeLocked() string {
	var parts []string
	for _, t := range s.tasks {
		switch t.state {
		case tsDone:
		case tsParked:
			if t.want != nil {
				li := s.locks[t.want]
				h := "nobody"
				if li.holder != nil {
					h = li.holder.Name
				}
				parts = append(parts, fmt.Sprintf("%s waits for %s held by %s", t.Name, stripNum(li.name), h))
			} else {
				parts = append(parts, fmt.Sprintf("%s parked at %s", t.Name, t.where))
			}
		case tsJoin:
			parts = append(parts, t.Name+" joining")
		case tsRunning:
			parts = append(parts, t.Name+" blocked outside the scheduler (pipe/channel)")
		}
	}
	return strings.Join(parts, "; ")
}

func stripNum(n string) string {
	if i := strings.IndexByte(n, '@'); i >= 0 {
		return n[i+1:]
	}
	return n
}

func (s *Sched) SwitchHash() uint64 { return s.swHash }
