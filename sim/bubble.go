package sim

import (
	"fmt"
	"hash/fnv"
	"os"
	"strings"
	"sync"
	"testing"
	"testing/cryptotest"
	"testing/synctest"
	"time"

	"github.com/pojntfx/stfs/pkg/simhook"
)

// Outcome is what the simulator itself observed about a run (independent of
// any property oracle): hangs, crashes, lock misuse, leaked tasks.
type Outcome struct {
	Deadlock    string
	Crashes     []string
	Misuse      []string
	Leaked      []string
	Held        []string
	BubblePanic string
	Steps       int
	Switches    int
	Preempts    int
	SwitchHash  uint64
	SimTime     time.Duration
}

type BubbleOpts struct {
	Stick     float64
	YieldProb float64
	Trace     bool
}

// RunBubble executes body as the root client task of a fresh synctest bubble
// under a fresh scheduler. Crypto randomness is pinned to the seed.
func RunBubble(t *testing.T, seed uint64, o BubbleOpts, body func(s *Sched)) (out Outcome) {
	defer func() {
		simhook.Install(nil)
		simhook.InstallOs(nil)
		if r := recover(); r != nil {
			out.BubblePanic = fmt.Sprint(r)
			if os.Getenv("VERIF_DET") == "2" {
				fmt.Println("BUBBLEPANIC", firstLine(out.BubblePanic))
				if os.Getenv("VERIF_DET_FULL") != "" {
					fmt.Println(out.BubblePanic)
				}
			}
		}
		// written here so that the end-of-bubble panic (goroutines of a dependency left blocked, e.g.
		// the workers of a parallel compressor that a failed call did not close: their number follows
		// GOMAXPROCS) cannot skip it; the panic text itself is not part of the digest
		detNote(fmt.Sprintf("bubble steps=%d switches=%d hash=%x preempts=%d deadlock=%q crashes=%d sim=%v", out.Steps, out.Switches, out.SwitchHash, out.Preempts, out.Deadlock, len(out.Crashes), out.SimTime))
	}()
	heartbeat()
	cryptotest.SetGlobalRandom(t, seed)
	synctest.Test(t, func(t *testing.T) {
		s := NewSched(seed, o.Stick, o.YieldProb)
		s.traceOn = o.Trace || os.Getenv("VERIF_TRACE") != ""
		defer func() {
			if os.Getenv("VERIF_TRACE") != "" {
				for i, l := range s.trace {
					fmt.Println("TRACE", i, l)
				}
			}
		}()
		simhook.Install(s)
		start := time.Now()
		root := s.Spawn("c0", func() { body(s) })
		s.Loop(root)
		out.Deadlock = s.Deadlock
		out.Crashes = s.Crashes
		out.Misuse = s.Misuse
		out.Leaked = s.Leaked()
		out.Held = s.HeldLocks()
		out.Steps = s.Steps
		out.Switches = s.Switches
		out.Preempts = s.Preempts
		out.SwitchHash = s.SwitchHash()
		out.SimTime = time.Since(start)
	})
	return out
}

func firstLine(s string) string {
	if i := strings.IndexByte(s, '\n'); i >= 0 {
		return s[:i]
	}
	return s
}

// determinism self-test: everything that must be a pure function of (seed, case)
// is folded into a digest per case (enabled with VERIF_DET=1).
var detOn = os.Getenv("VERIF_DET") != ""
var detHash = fnv.New64a()

func detNote(s string) {
	if detOn {
		if os.Getenv("VERIF_DET") == "2" {
			fmt.Println("DETNOTE", s)
		}
		detHash.Write([]byte(s))
		detHash.Write([]byte{0})
	}
}

func detTake() uint64 {
	v := detHash.Sum64()
	detHash.Reset()
	return v
}

// heartbeat: harness activity (a new bubble, a stack being opened) proves that
// the run is not spinning inside the code under test. The supervisor kills a
// process whose heartbeat stops.
var (
	hbFunc func()
	hbLast time.Time
	hbMu   sync.Mutex
)

func heartbeat() {
	hbMu.Lock()
	defer hbMu.Unlock()
	if hbFunc == nil || realSince(hbLast) < time.Second {
		return
	}
	hbLast = realNow()
	hbFunc()
}
