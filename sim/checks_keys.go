package sim

import (
	"archive/tar"
	"bytes"
	"fmt"
	"io"
	"math/rand/v2"
	"strings"
	"sync"
	"testing"
	"time"

	"github.com/pojntfx/stfs/pkg/config"
	"github.com/pojntfx/stfs/pkg/encryption"
	"github.com/pojntfx/stfs/pkg/keys"
	"github.com/pojntfx/stfs/pkg/signature"
	"github.com/pojntfx/stfs/pkg/utility"
)

var passwords = []string{"", "hunter2", "correct horse battery staple", "pässwörd-日本語-🔑", strings.Repeat("long-password-", 74), " ", "a\nb"}

func init() {
	Register(&Check{
		ID: "C18", Level: "exploration", Tech: "deterministic simulation of the two environment inputs of key handling: seeded crypto randomness and the simulated clock (generation at t0, use after a clock jump of up to 100 years)",
		Rule:      "per run one format in {enc:age, enc:pgp, sig:minisign, sig:pgp} and one password from {empty, ASCII, phrase, multi-byte, 1 KB, blank, with newline}; a fresh pair is generated at simulated time t0 (2000-01-01 + d0), the clock is advanced by d1 in {0, 1 s, 1 year, 30 years, 100 years}; oracle: the pair parses with its password, string and stream encrypt/decrypt (sign/verify) round-trip, parsing with another password fails, and an independently generated pair of the same format neither decrypts nor verifies - strings, streams and header records, asked before AND after the right pair has processed the very same data; in half of the runs a real-thread supplement: two free-running goroutines parse the two pairs' public halves at the same time (30..1500 times each) and every key parsed that way must accept its own pair's output and reject the other's; non-trivial = every run (a fresh pair is generated); distinct by (format, password class, clock jump). The password/format quantifier is plain seeded generation; what the simulator owns is entropy and clock.",
		QuickRuns: 96, QuickSecs: 80, ThoroughRuns: 1500, ThoroughSecs: 1500, MaxWorkers: 8,
		Assumptions: []string{"clock moves forward only (a key 'from the future' being rejected is standard OpenPGP behaviour)"},
		Gen: func(r *rand.Rand, tier string, relax Relax) *Case {
			c := &Case{Cfg: PlainConfig(20), P: map[string]int64{}, S: map[string]string{}}
			c.S["kind"] = []string{"enc:age", "enc:pgp", "sig:minisign", "sig:pgp"}[r.IntN(4)]
			c.P["pw"] = int64(r.IntN(len(passwords)))
			c.P["d0"] = int64([]int{0, 1, 86400 * 365}[r.IntN(3)])
			c.P["d1"] = int64([]int{0, 1, 86400 * 365, 86400 * 365 * 30, 86400 * 365 * 100}[r.IntN(5)])
			c.P["len"] = int64([]int{0, 1, 100, 70000}[r.IntN(4)])
			if r.IntN(2) == 0 {
				// real-thread supplement: both pairs' public halves parsed by two goroutines at once
				c.P["par"] = int64(map[string]int{"enc:age": 300, "enc:pgp": 30, "sig:minisign": 1500, "sig:pgp": 60}[c.S["kind"]])
			}
			return c
		},
		Eval: evalC18,
	})
}

// parallelParse is C18's real-thread supplement: two goroutines (free-running inside the bubble, the
// worker has two Ps) parse the public halves of the two pairs at the same time, rounds times each in a
// tight loop; every parsed key is then put to use. What a pair's public half accepts must not depend on
// what another caller is parsing at that moment. The expected outcome is fixed (own: accepted, other
// pair: rejected), so the verdict is deterministic whenever the property holds.
func parallelParse(rounds int, pubs [2][]byte, parse func([]byte) (interface{}, error), use func(who int, rec interface{}) string) string {
	var out [2][]interface{}
	var errs [2]error
	var wg sync.WaitGroup
	start := make(chan struct{})
	for g := 0; g < 2; g++ {
		wg.Add(1)
		go func(g int) {
			defer wg.Done()
			<-start
			for i := 0; i < rounds; i++ {
				r, err := parse(pubs[g])
				if err != nil {
					errs[g] = err
					return
				}
				out[g] = append(out[g], r)
			}
		}(g)
	}
	close(start)
	wg.Wait()
	for g := range out {
		if errs[g] != nil {
			return fmt.Sprintf("pair %d: public half does not parse while another goroutine parses the other pair's: %v", g+1, errs[g])
		}
		for i, r := range out[g] {
			if m := use(g, r); m != "" {
				return fmt.Sprintf("pair %d, parse #%d of %d made while another goroutine was parsing the other pair's public half: %s", g+1, i+1, rounds, m)
			}
		}
	}
	return ""
}

func evalC18(t *testing.T, c *Case, st *Stats, relax Relax) *Violation {
	kind := c.S["kind"]
	if kind == "" {
		return nil
	}
	return RunSeq(t, c, st, relax, seqOpts{NoOpen: true}, func(x *SeqCtx) *Violation {
		pw := passwords[int(c.Param("pw", 0))%len(passwords)]
		format := kind[4:]
		isEnc := kind[:3] == "enc"
		where := fmt.Sprintf("%s, password class %d (%d bytes), generated at +%ds, used %ds later", kind, c.Param("pw", 0), len(pw), c.Param("d0", 0), c.Param("d1", 0))
		mk := func(oracle, detail string) *Violation {
			return &Violation{Prop: c.Prop, Oracle: oracle, Detail: where + ": " + detail}
		}
		if d := c.Param("d0", 0); d > 0 {
			x.S.Sleep(time.Duration(d) * time.Second)
		}
		pipes := config.PipeConfig{}
		if isEnc {
			pipes.Encryption = format
		} else {
			pipes.Signature = format
		}
		gen := func(password string) ([]byte, []byte, error) {
			// key derivation is CPU-bound and bounded: prove liveness to the watchdog between the
			// phases of a run (a loaded machine stretched one run beyond the watchdog's 150 s once)
			defer heartbeat()
			return utility.Keygen(pipes, config.PasswordConfig{Password: password})
		}
		priv, pub, err := gen(pw)
		if err != nil {
			return mk("keygen-fails", err.Error())
		}
		priv2, pub2, err := gen(pw)
		if err != nil {
			return mk("keygen-fails", err.Error())
		}
		if bytes.Equal(priv, priv2) {
			return mk("two-generated-pairs-identical", "two successive key generations returned the same private key")
		}
		if d := c.Param("d1", 0); d > 0 {
			x.S.Sleep(time.Duration(d) * time.Second)
		}
		heartbeat()
		msg := (&Data{Len: int(c.Param("len", 100)), Kind: "rand", Tag: 18}).Bytes()
		wrong := pw + "x"
		if pw != "" && c.Seed%2 == 0 {
			wrong = pw[:len(pw)-1]
		}
		if isEnc {
			rec, err := keys.ParseRecipient(format, pub)
			if err != nil {
				return mk("public-key-unparsable", err.Error())
			}
			id, err := keys.ParseIdentity(format, priv, pw)
			if err != nil {
				return mk("private-key-unparsable-with-its-password", err.Error())
			}
			// string round trip
			ct, err := encryption.EncryptString(string(msg), format, rec)
			if err != nil {
				return mk("encrypt-fails", err.Error())
			}
			pt, err := encryption.DecryptString(ct, format, id)
			if err != nil {
				return mk("decrypt-fails", err.Error())
			}
			if pt != string(msg) {
				return mk("decrypt-differs", fmt.Sprintf("%s != %s", sumOf([]byte(pt)), sumOf(msg)))
			}
			// stream round trip
			var buf bytes.Buffer
			w, err := encryption.Encrypt(&buf, format, rec)
			if err != nil {
				return mk("encrypt-fails", err.Error())
			}
			w.Write(msg)
			if err := w.Close(); err != nil {
				return mk("encrypt-fails", err.Error())
			}
			rd, err := encryption.Decrypt(bytes.NewReader(buf.Bytes()), format, id)
			if err != nil {
				return mk("decrypt-fails", err.Error())
			}
			got, err := io.ReadAll(rd)
			if err != nil || !bytes.Equal(got, msg) {
				return mk("decrypt-differs", fmt.Sprintf("stream: err=%v %s != %s", err, sumOf(got), sumOf(msg)))
			}
			// a decrypted stream that has ended stays ended (decompressors probe the end more than once)
			for i := 0; i < 3; i++ {
				if n, err := rd.Read(make([]byte, 16)); n != 0 || err != io.EOF {
					return mk("decrypt-fails", fmt.Sprintf("read #%d after the end of the decrypted stream: n=%d err=%v, want 0, EOF", i+1, n, err))
				}
			}
			heartbeat()
			// wrong password
			if wid, err := keys.ParseIdentity(format, priv, wrong); err == nil {
				// parsing may be lazy: the identity must at least be unusable
				if _, err := encryption.DecryptString(ct, format, wid); err == nil {
					return mk("wrong-password-accepted", "the private key parsed and decrypted with a different password")
				}
			}
			// another pair does not decrypt
			id2, err := keys.ParseIdentity(format, priv2, pw)
			if err != nil {
				return mk("private-key-unparsable-with-its-password", "second pair: "+err.Error())
			}
			if pt, err := encryption.DecryptString(ct, format, id2); err == nil {
				return mk("other-pair-decrypts", fmt.Sprintf("a different pair decrypted the message (%d bytes)", len(pt)))
			}
			// header records (what the tape carries): the other pair fails before AND after the
			// right pair has decrypted the same header, and the same with the string form again
			mkHdr := func() *tar.Header {
				return &tar.Header{Typeflag: tar.TypeReg, Name: "/d/" + sumOf(msg), Size: int64(len(msg)), Mode: 0o640, Uid: 7, Gid: 8, ModTime: time.Unix(946684800, 0), Format: tar.FormatPAX,
					PAXRecords: map[string]string{"STFS.Action": "CREATE"}}
			}
			eh := mkHdr()
			if err := encryption.EncryptHeader(eh, format, rec); err != nil {
				return mk("encrypt-fails", "header: "+err.Error())
			}
			cp := func(h *tar.Header) *tar.Header {
				c := *h
				c.PAXRecords = map[string]string{}
				for k, v := range h.PAXRecords {
					c.PAXRecords[k] = v
				}
				return &c
			}
			for round := 0; round < 2; round++ {
				if h := cp(eh); encryption.DecryptHeader(h, format, id2) == nil {
					return mk("other-pair-decrypts", fmt.Sprintf("a different pair decrypted a header record (attempt %d, %s the right pair decrypted it)", round+1, []string{"before", "after"}[round]))
				}
				h := cp(eh)
				if err := encryption.DecryptHeader(h, format, id); err != nil {
					return mk("decrypt-fails", "header: "+err.Error())
				}
				if w := mkHdr(); h.Name != w.Name || h.Size != w.Size || h.Mode != w.Mode || h.Uid != w.Uid || h.Gid != w.Gid || !h.ModTime.Equal(w.ModTime) || h.PAXRecords["STFS.Action"] != "CREATE" {
					return mk("decrypt-differs", fmt.Sprintf("header: %+v", h))
				}
				if pt, err := encryption.DecryptString(ct, format, id2); err == nil {
					return mk("other-pair-decrypts", fmt.Sprintf("a different pair decrypted the message after the right pair had (%d bytes)", len(pt)))
				}
			}
			st.Add("header_cross_pair_rounds", 2)
			if rounds := int(c.Param("par", 0)); rounds > 0 {
				heartbeat()
				ids := [2]interface{}{id, id2}
				pm := "parallel phase message " + sumOf(msg)
				if m := parallelParse(rounds, [2][]byte{pub, pub2}, func(b []byte) (interface{}, error) { return keys.ParseRecipient(format, b) }, func(who int, rec interface{}) string {
					ct, err := encryption.EncryptString(pm, format, rec)
					if err != nil {
						return "encrypt fails: " + err.Error()
					}
					if pt, err := encryption.DecryptString(ct, format, ids[who]); err != nil || pt != pm {
						return fmt.Sprintf("what is encrypted to it is not decrypted by its own private half (err=%v)", err)
					}
					if _, err := encryption.DecryptString(ct, format, ids[1-who]); err == nil {
						return "what is encrypted to it is decrypted by the OTHER pair's private half"
					}
					return ""
				}); m != "" {
					return mk("parallel-parse-mixes-pairs", m)
				}
				st.Add("parallel_parse_rounds", int64(2*rounds))
			}
		} else {
			rec, err := keys.ParseSignerRecipient(format, pub)
			if err != nil {
				return mk("public-key-unparsable", err.Error())
			}
			id, err := keys.ParseSignerIdentity(format, priv, pw)
			if err != nil {
				return mk("private-key-unparsable-with-its-password", err.Error())
			}
			sig, err := signature.SignString(string(msg), true, format, id)
			if err != nil {
				return mk("sign-fails", err.Error())
			}
			if err := signature.VerifyString(string(msg), true, format, rec, sig); err != nil {
				return mk("verify-fails", err.Error())
			}
			if err := signature.VerifyString(string(msg)+"tampered", true, format, rec, sig); err == nil {
				return mk("verify-accepts-other-message", "string signature verifies for a different message")
			}
			// stream
			sr, fin, err := signature.Sign(bytes.NewReader(msg), true, format, id)
			if err != nil {
				return mk("sign-fails", err.Error())
			}
			io.Copy(io.Discard, sr)
			ssig, err := fin()
			if err != nil {
				return mk("sign-fails", err.Error())
			}
			vr, vfin, err := signature.Verify(bytes.NewReader(msg), true, format, rec, ssig)
			if err != nil {
				return mk("verify-fails", err.Error())
			}
			io.Copy(io.Discard, vr)
			if err := vfin(); err != nil {
				return mk("verify-fails", "stream: "+err.Error())
			}
			heartbeat()
			// wrong password
			if wid, err := keys.ParseSignerIdentity(format, priv, wrong); err == nil {
				if _, err := signature.SignString("x", true, format, wid); err == nil {
					return mk("wrong-password-accepted", "the private key parsed and signed with a different password")
				}
			}
			// another pair does not verify
			rec2, err := keys.ParseSignerRecipient(format, pub2)
			if err != nil {
				return mk("public-key-unparsable", "second pair: "+err.Error())
			}
			if err := signature.VerifyString(string(msg), true, format, rec2, sig); err == nil {
				return mk("other-pair-verifies", "a different pair verified the signature")
			}
			vr, vfin, err = signature.Verify(bytes.NewReader(msg), true, format, rec2, ssig)
			if err == nil {
				io.Copy(io.Discard, vr)
				if err := vfin(); err == nil {
					return mk("other-pair-verifies", "a different pair verified the stream signature")
				}
			}
			// header records (what the tape carries), and every form once more: the other pair
			// fails before AND after the right pair has verified the very same data
			mkHdr := func() *tar.Header {
				return &tar.Header{Typeflag: tar.TypeReg, Name: "/d/" + sumOf(msg), Size: int64(len(msg)), Mode: 0o640, Uid: 7, Gid: 8, ModTime: time.Unix(946684800, 0), Format: tar.FormatPAX,
					PAXRecords: map[string]string{"STFS.Action": "CREATE"}}
			}
			sh := mkHdr()
			if err := signature.SignHeader(sh, true, format, id); err != nil {
				return mk("sign-fails", "header: "+err.Error())
			}
			cp := func(h *tar.Header) *tar.Header {
				c := *h
				c.PAXRecords = map[string]string{}
				for k, v := range h.PAXRecords {
					c.PAXRecords[k] = v
				}
				return &c
			}
			for round := 0; round < 2; round++ {
				when := []string{"before", "after"}[round]
				if signature.VerifyHeader(cp(sh), true, format, rec2) == nil {
					return mk("other-pair-verifies", fmt.Sprintf("a different pair verified a signed header record (%s the right pair verified it)", when))
				}
				h := cp(sh)
				if err := signature.VerifyHeader(h, true, format, rec); err != nil {
					return mk("verify-fails", "header: "+err.Error())
				}
				if w := mkHdr(); h.Name != w.Name || h.Size != w.Size || h.Mode != w.Mode || h.Uid != w.Uid || h.Gid != w.Gid || !h.ModTime.Equal(w.ModTime) || h.PAXRecords["STFS.Action"] != "CREATE" {
					return mk("verify-differs", fmt.Sprintf("header: %+v", h))
				}
				alt := cp(sh)
				alt.PAXRecords["STFS.EmbeddedHeader"] = strings.Replace(alt.PAXRecords["STFS.EmbeddedHeader"], "416", "511", 1)
				if alt.PAXRecords["STFS.EmbeddedHeader"] != sh.PAXRecords["STFS.EmbeddedHeader"] && signature.VerifyHeader(alt, true, format, rec) == nil {
					return mk("verify-accepts-other-message", "an altered header record verifies")
				}
				if signature.VerifyString(string(msg), true, format, rec2, sig) == nil {
					return mk("other-pair-verifies", "a different pair verified the string signature "+when+" a second look")
				}
				if err := signature.VerifyString(string(msg), true, format, rec, sig); err != nil {
					return mk("verify-fails", "second look: "+err.Error())
				}
			}
			st.Add("header_cross_pair_rounds", 2)
			if rounds := int(c.Param("par", 0)); rounds > 0 {
				heartbeat()
				id2, err := keys.ParseSignerIdentity(format, priv2, pw)
				if err != nil {
					return mk("private-key-unparsable-with-its-password", "second pair: "+err.Error())
				}
				heartbeat()
				pm := "parallel phase message " + sumOf(msg)
				var sigs [2]string
				for i, sid := range []interface{}{id, id2} {
					if sigs[i], err = signature.SignString(pm, true, format, sid); err != nil {
						return mk("sign-fails", err.Error())
					}
				}
				if m := parallelParse(rounds, [2][]byte{pub, pub2}, func(b []byte) (interface{}, error) { return keys.ParseSignerRecipient(format, b) }, func(who int, rec interface{}) string {
					if err := signature.VerifyString(pm, true, format, rec, sigs[who]); err != nil {
						return "it does not verify the signature of its own private half: " + err.Error()
					}
					if signature.VerifyString(pm, true, format, rec, sigs[1-who]) == nil {
						return "it VERIFIES a signature made by the other pair"
					}
					return ""
				}); m != "" {
					return mk("parallel-parse-mixes-pairs", m)
				}
				st.Add("parallel_parse_rounds", int64(2*rounds))
			}
		}
		st.Nontrivial(fmt.Sprintf("%s|%d|%d|%d", kind, c.Param("pw", 0), c.Param("d0", 0), c.Param("d1", 0)))
		st.Add("pairs_generated", 2)
		st.Sample(where + fmt.Sprintf(", message %d bytes", len(msg)))
		return nil
	})
}
