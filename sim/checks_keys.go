package sim

import (
	"bytes"
	"fmt"
	"io"
	"math/rand/v2"
	"strings"
	"testing"
	"time"

	"github.com/pojntfx/stfs/pkg/config"
	"github.com/pojntfx/stfs/pkg/encryption"
	"github.com/pojntfx/stfs/pkg/keys"
	"github.com/pojntfx/stfs/pkg/signature"
	"github.com/pojntfx/stfs/pkg/utility"
)

var passwords = []string{"", "hunter2", "correct horse battery staple", "pässwörd-日本語-🔑", strings.Repeat("long-password-", 74), " ", "a\nb"}

func init() {
	Register(&Check{
		ID: "C18", Level: "exploration", Tech: "deterministic simulation of the two environment inputs of key handling: seeded crypto randomness and the simulated clock (generation at t0, use after a clock jump of up to 100 years)",
		Rule:      "per run one format in {enc:age, enc:pgp, sig:minisign, sig:pgp} and one password from {empty, ASCII, phrase, multi-byte, 1 KB, blank, with newline}; a fresh pair is generated at simulated time t0 (2000-01-01 + d0), the clock is advanced by d1 in {0, 1 s, 1 year, 30 years, 100 years}; oracle: the pair parses with its password, string and stream encrypt/decrypt (sign/verify) round-trip, parsing with another password fails, and an independently generated pair of the same format neither decrypts nor verifies; non-trivial = every run (a fresh pair is generated); distinct by (format, password class, clock jump). The password/format quantifier is plain seeded generation; what the simulator owns is entropy and clock.",
		QuickRuns: 96, QuickSecs: 80, ThoroughRuns: 1500, ThoroughSecs: 1500,
		Assumptions: []string{"clock moves forward only (a key 'from the future' being rejected is standard OpenPGP behaviour)"},
		Gen: func(r *rand.Rand, tier string, relax Relax) *Case {
			c := &Case{Cfg: PlainConfig(20), P: map[string]int64{}, S: map[string]string{}}
			c.S["kind"] = []string{"enc:age", "enc:pgp", "sig:minisign", "sig:pgp"}[r.IntN(4)]
			c.P["pw"] = int64(r.IntN(len(passwords)))
			c.P["d0"] = int64([]int{0, 1, 86400 * 365}[r.IntN(3)])
			c.P["d1"] = int64([]int{0, 1, 86400 * 365, 86400 * 365 * 30, 86400 * 365 * 100}[r.IntN(5)])
			c.P["len"] = int64([]int{0, 1, 100, 70000}[r.IntN(4)])
			return c
		},
		Eval: evalC18,
	})
}

func evalC18(t *testing.T, c *Case, st *Stats, relax Relax) *Violation {
	kind := c.S["kind"]
	if kind == "" {
		return nil
	}
	return RunSeq(t, c, st, relax, seqOpts{NoOpen: true}, func(x *SeqCtx) *Violation {
		pw := passwords[int(c.Param("pw", 0))%len(passwords)]
		format := kind[4:]
		isEnc := kind[:3] == "enc"
		where := fmt.Sprintf("%s, password class %d (%d bytes), generated at +%ds, used %ds later", kind, c.Param("pw", 0), len(pw), c.Param("d0", 0), c.Param("d1", 0))
		mk := func(oracle, detail string) *Violation {
			return &Violation{Prop: c.Prop, Oracle: oracle, Detail: where + ": " + detail}
		}
		if d := c.Param("d0", 0); d > 0 {
			x.S.Sleep(time.Duration(d) * time.Second)
		}
		pipes := config.PipeConfig{}
		if isEnc {
			pipes.Encryption = format
		} else {
			pipes.Signature = format
		}
		gen := func(password string) ([]byte, []byte, error) {
			return utility.Keygen(pipes, config.PasswordConfig{Password: password})
		}
		priv, pub, err := gen(pw)
		if err != nil {
			return mk("keygen-fails", err.Error())
		}
		priv2, pub2, err := gen(pw)
		if err != nil {
			return mk("keygen-fails", err.Error())
		}
		if bytes.Equal(priv, priv2) {
			return mk("two-generated-pairs-identical", "two successive key generations returned the same private key")
		}
		if d := c.Param("d1", 0); d > 0 {
			x.S.Sleep(time.Duration(d) * time.Second)
		}
		msg := (&Data{Len: int(c.Param("len", 100)), Kind: "rand", Tag: 18}).Bytes()
		wrong := pw + "x"
		if pw != "" && c.Seed%2 == 0 {
			wrong = pw[:len(pw)-1]
		}
		if isEnc {
			rec, err := keys.ParseRecipient(format, pub)
			if err != nil {
				return mk("public-key-unparsable", err.Error())
			}
			id, err := keys.ParseIdentity(format, priv, pw)
			if err != nil {
				return mk("private-key-unparsable-with-its-password", err.Error())
			}
			// string round trip
			ct, err := encryption.EncryptString(string(msg), format, rec)
			if err != nil {
				return mk("encrypt-fails", err.Error())
			}
			pt, err := encryption.DecryptString(ct, format, id)
			if err != nil {
				return mk("decrypt-fails", err.Error())
			}
			if pt != string(msg) {
				return mk("decrypt-differs", fmt.Sprintf("%s != %s", sumOf([]byte(pt)), sumOf(msg)))
			}
			// stream round trip
			var buf bytes.Buffer
			w, err := encryption.Encrypt(&buf, format, rec)
			if err != nil {
				return mk("encrypt-fails", err.Error())
			}
			w.Write(msg)
			if err := w.Close(); err != nil {
				return mk("encrypt-fails", err.Error())
			}
			rd, err := encryption.Decrypt(bytes.NewReader(buf.Bytes()), format, id)
			if err != nil {
				return mk("decrypt-fails", err.Error())
			}
			got, err := io.ReadAll(rd)
			if err != nil || !bytes.Equal(got, msg) {
				return mk("decrypt-differs", fmt.Sprintf("stream: err=%v %s != %s", err, sumOf(got), sumOf(msg)))
			}
			// wrong password
			if wid, err := keys.ParseIdentity(format, priv, wrong); err == nil {
				// parsing may be lazy: the identity must at least be unusable
				if _, err := encryption.DecryptString(ct, format, wid); err == nil {
					return mk("wrong-password-accepted", "the private key parsed and decrypted with a different password")
				}
			}
			// another pair does not decrypt
			id2, err := keys.ParseIdentity(format, priv2, pw)
			if err != nil {
				return mk("private-key-unparsable-with-its-password", "second pair: "+err.Error())
			}
			if pt, err := encryption.DecryptString(ct, format, id2); err == nil {
				return mk("other-pair-decrypts", fmt.Sprintf("a different pair decrypted the message (%d bytes)", len(pt)))
			}
			_ = pub2
		} else {
			rec, err := keys.ParseSignerRecipient(format, pub)
			if err != nil {
				return mk("public-key-unparsable", err.Error())
			}
			id, err := keys.ParseSignerIdentity(format, priv, pw)
			if err != nil {
				return mk("private-key-unparsable-with-its-password", err.Error())
			}
			sig, err := signature.SignString(string(msg), true, format, id)
			if err != nil {
				return mk("sign-fails", err.Error())
			}
			if err := signature.VerifyString(string(msg), true, format, rec, sig); err != nil {
				return mk("verify-fails", err.Error())
			}
			if err := signature.VerifyString(string(msg)+"tampered", true, format, rec, sig); err == nil {
				return mk("verify-accepts-other-message", "string signature verifies for a different message")
			}
			// stream
			sr, fin, err := signature.Sign(bytes.NewReader(msg), true, format, id)
			if err != nil {
				return mk("sign-fails", err.Error())
			}
			io.Copy(io.Discard, sr)
			ssig, err := fin()
			if err != nil {
				return mk("sign-fails", err.Error())
			}
			vr, vfin, err := signature.Verify(bytes.NewReader(msg), true, format, rec, ssig)
			if err != nil {
				return mk("verify-fails", err.Error())
			}
			io.Copy(io.Discard, vr)
			if err := vfin(); err != nil {
				return mk("verify-fails", "stream: "+err.Error())
			}
			// wrong password
			if wid, err := keys.ParseSignerIdentity(format, priv, wrong); err == nil {
				if _, err := signature.SignString("x", true, format, wid); err == nil {
					return mk("wrong-password-accepted", "the private key parsed and signed with a different password")
				}
			}
			// another pair does not verify
			rec2, err := keys.ParseSignerRecipient(format, pub2)
			if err != nil {
				return mk("public-key-unparsable", "second pair: "+err.Error())
			}
			if err := signature.VerifyString(string(msg), true, format, rec2, sig); err == nil {
				return mk("other-pair-verifies", "a different pair verified the signature")
			}
			vr, vfin, err = signature.Verify(bytes.NewReader(msg), true, format, rec2, ssig)
			if err == nil {
				io.Copy(io.Discard, vr)
				if err := vfin(); err == nil {
					return mk("other-pair-verifies", "a different pair verified the stream signature")
				}
			}
		}
		st.Nontrivial(fmt.Sprintf("%s|%d|%d|%d", kind, c.Param("pw", 0), c.Param("d0", 0), c.Param("d1", 0)))
		st.Add("pairs_generated", 2)
		st.Sample(where + fmt.Sprintf(", message %d bytes", len(msg)))
		return nil
	})
}
