package sim

import (
	"archive/tar"
	"bytes"
	"fmt"
	"io"
	"io/fs"
	"math/rand/v2"
	"os"
	"path/filepath"
	"sort"
	"strings"
	"testing"
	"time"

	"github.com/pojntfx/stfs/pkg/config"
)

var faultSeams = []string{
	"drive.write", "drive.read", "drive.seek", "drive.stat", "drive.openfile", "drive.open",
	"index.any", "cache.new", "cache.write", "cache.read", "cache.seek", "cache.size", "cache.truncate",
	"source.open", "source.read", "source.seek", "source.close", "sink.open", "sink.write", "sink.close",
}

// genShortHistory: 1-4 calls of every kind (including calls that are rejected),
// handle groups are atomic so that no read stream stays open across calls.
func genShortHistory(r *rand.Rand, rs int) []Op {
	var ops []Op
	tag := uint32(0)
	names := []string{"/a", "/b", "/d", "/d/x", "/missing/x"}
	pick := func() string { return names[r.IntN(len(names))] }
	// most calls should get past their precondition, so that their write path is enumerated
	src := func() string {
		if r.Float64() < 0.6 {
			return []string{"/a", "/d"}[r.IntN(2)]
		}
		return pick()
	}
	fresh := 0
	// optional setup so that calls have something to act on
	if r.Float64() < 0.7 {
		ops = append(ops, Op{K: "mkdir", P: "/d", M: 0o755})
	}
	if r.Float64() < 0.7 {
		tag++
		ops = append(ops, Op{K: "writefile", P: "/a", D: &Data{Len: []int{0, 1, 700, rs*512 + 1}[r.IntN(4)], Kind: "text", Tag: tag}})
	}
	n := 1 + r.IntN(3)
	for i := 0; i < n; i++ {
		switch r.IntN(19) {
		case 18: // Initialize is called again on the live instance while a read stream is open (it catches the
			// index up through the drive reader that the parked restore of the stream holds)
			ops = append(ops, Op{K: "open", P: "/a", H: 3}, Op{K: "h.read", H: 3, N: 1 + r.IntN(16)}, Op{K: "reinit"},
				Op{K: "h.read", H: 3, N: 1 << 16}, Op{K: "h.close", H: 3})
		case 16, 17: // the instance is opened again, with its index (N=0) or with the index lost (N=1: rebuilt by replaying the tape)
			ops = append(ops, Op{K: "reopen", N: r.IntN(2)})
		case 0:
			ops = append(ops, Op{K: "mkdir", P: pick(), M: 0o755})
		case 1:
			ops = append(ops, Op{K: "mkdirall", P: "/m/n/o", M: 0o755})
		case 2:
			tag++
			ops = append(ops, Op{K: "writefile", P: pick(), D: &Data{Len: []int{0, 5, 2000}[r.IntN(3)], Kind: "rand", Tag: tag}})
		case 3:
			ops = append(ops, Op{K: "remove", P: src()})
		case 4:
			ops = append(ops, Op{K: "removeall", P: src()})
		case 5:
			if r.Float64() < 0.5 {
				fresh++
				ops = append(ops, Op{K: "rename", P: src(), Q: fmt.Sprintf("/r%d", fresh)})
			} else {
				ops = append(ops, Op{K: "rename", P: src(), Q: pick()})
			}
		case 6:
			ops = append(ops, Op{K: "chmod", P: src(), M: 0o600})
		case 7:
			ops = append(ops, Op{K: "chown", P: src(), U: 1000, G: 1000})
		case 8:
			ops = append(ops, Op{K: "chtimes", P: src(), T1: 1e9, T2: 1e9})
		case 9:
			ops = append(ops, Op{K: "readfile", P: pick()})
		case 10:
			ops = append(ops, Op{K: "stat", P: pick()})
		case 11: // handle group: write path
			tag++
			ops = append(ops, Op{K: "openfile", P: pick(), H: 1, F: openFlagSets[r.IntN(len(openFlagSets))], M: 0o644},
				Op{K: "h.write", H: 1, D: &Data{Len: 1 + r.IntN(1500), Kind: "text", Tag: tag}})
			if r.Float64() < 0.5 {
				ops = append(ops, Op{K: "h.truncate", H: 1, O: int64(r.IntN(3000))})
			}
			if r.Float64() < 0.3 {
				ops = append(ops, Op{K: "h.sync", H: 1})
			}
			ops = append(ops, Op{K: "h.close", H: 1})
		case 12: // handle group: read path with a partial read, then close
			ops = append(ops, Op{K: "open", P: "/a", H: 2}, Op{K: "h.read", H: 2, N: 1 + r.IntN(600)})
			if r.Float64() < 0.5 {
				ops = append(ops, Op{K: "h.seek", H: 2, O: int64(r.IntN(500)), W: r.IntN(3)})
			}
			ops = append(ops, Op{K: "h.close", H: 2})
		case 13:
			ops = append(ops, Op{K: "symlink", P: "/a", Q: "/lnk"})
		case 14: // batched Operations.Archive fed by caller-supplied data sources
			tag += 10
			ops = append(ops, Op{K: "archive", P: "/", N: 1 + r.IntN(3), D: &Data{Len: 1 + r.IntN(3000), Kind: "text", Tag: tag}})
		case 15: // Operations.Restore into a caller-supplied sink
			ops = append(ops, Op{K: "restore", P: pick()})
		}
	}
	return ops
}

type faultPoint struct {
	Call int
	F    Fault
}

func init() {
	Register(&Check{
		ID: "C10", Level: "fault_enumeration", Tech: "deterministic simulation: exhaustive single-fault enumeration per history at the drive / index-store / write-cache seams, followed by probe calls; exact deadlock detection by the scheduler's lock table",
		Rule:      "per generated short history (setup + 1-3 calls of any kind incl. rejected calls and handle groups) a fault-free pilot counts the calls through each seam; then EVERY (call, seam, k) single fault point is re-run (drive write incl. short writes, drive read/seek, drive stat/open syscalls, k-th index-store call, cache new/read/write/seek/size/truncate), followed by Stat and Mkdir probes; oracle: all calls return, no panic, no lock held and no drive handle open at quiescence; an evaluation = one faulted run; non-trivial = the fault fired; distinct by (history kinds, call, seam, k)",
		QuickRuns: 150, QuickSecs: 70, ThoroughRuns: 3000, ThoroughSecs: 1500,
		Assumptions: []string{"index-store faults fail before touching the database (no applied-but-failed writes)", "Close() errors of the drive file are not injected (os.File.Close does not fail on a regular file)", "nothing is required about WHAT a call returns under a fault"},
		Gen: func(r *rand.Rand, tier string, relax Relax) *Case {
			c := &Case{Cfg: GenConfig(r, 0.6), P: map[string]int64{"enumerate": 1}, S: map[string]string{}}
			c.Ops = genShortHistory(r, c.Cfg.RecordSize)
			if r.Float64() < 0.2 {
				c.P["pairs"] = 1 // additionally sample pairs of faults
			}
			return c
		},
		Eval: evalC10,
	})
}

func evalC10(t *testing.T, c *Case, st *Stats, relax Relax) *Violation {
	if c.Param("enumerate", 0) == 0 {
		// replay of one concrete fault plan
		v, dev := runFaultedChecked(t, c, st, relax, c.Faults, nil)
		_ = dev
		return v
	}
	// pilot
	var snaps []map[string]int
	if v, _ := runFaultedChecked(t, c, st, relax, nil, &snaps); v != nil {
		c.P["enumerate"] = 0
		return v
	}
	st.Add("pilot_runs", 1)
	var points []faultPoint
	prev := map[string]int{}
	for i, s := range snaps {
		for _, seam := range faultSeams {
			hi := s[seam]
			if asyncCodec(c.Cfg) && (seam == "drive.read" || seam == "drive.write" || seam == "drive.seek") && hi > prev[seam]+12 {
				// helper goroutines of concurrent codecs read ahead: only the first
				// byte-level calls of a call are the same in every execution
				hi = prev[seam] + 12
			}
			for k := prev[seam] + 1; k <= hi; k++ {
				points = append(points, faultPoint{Call: i, F: Fault{Seam: seam, K: k}})
				if seam == "drive.write" {
					points = append(points, faultPoint{Call: i, F: Fault{Seam: seam, K: k, Arg: 1 + (k*37)%400}})
				}
			}
		}
		prev = s
	}
	max := 250
	if c.Tier == "thorough" {
		max = 1500
	}
	if len(points) > max {
		// keep a deterministic spread
		step := float64(len(points)) / float64(max)
		var sel []faultPoint
		for i := 0; i < max; i++ {
			sel = append(sel, points[int(float64(i)*step)])
		}
		points = sel
		st.Add("histories_sampled_not_exhaustive", 1)
	} else {
		st.Add("histories_exhaustive", 1)
	}
	kinds := opKinds(c.Ops)
	for _, p := range points {
		v, dev := runFaultedChecked(t, c, st, relax, []Fault{p.F}, nil)
		st.Evals++
		if dev != nil {
			fired := 0
			for s, n := range dev.Fired {
				st.Add("fired_"+s, int64(n))
				fired += n
			}
			if fired > 0 {
				st.Nontrivial(fmt.Sprintf("%s|%d|%s|%d|%d", kinds, p.Call, p.F.Seam, p.F.K, p.F.Arg))
			}
		}
		if v != nil {
			c.Faults = []Fault{p.F}
			c.P["enumerate"] = 0
			v.Step = p.Call
			return v
		}
	}
	if c.Param("pairs", 0) == 1 && len(points) > 2 {
		r := rand.New(rand.NewPCG(c.Seed, 99))
		for i := 0; i < 30; i++ {
			a, b := points[r.IntN(len(points))], points[r.IntN(len(points))]
			v, _ := runFaultedChecked(t, c, st, relax, []Fault{a.F, b.F}, nil)
			st.Evals++
			st.Add("fault_pair_runs", 1)
			if v != nil {
				c.Faults = []Fault{a.F, b.F}
				c.P["enumerate"] = 0
				return v
			}
		}
	}
	st.Evals-- // the worker counts the case itself once
	st.Sample(fmt.Sprintf("cfg=%s %d fault points over seams %s; history:\n%s", c.Cfg, len(points), seamSummary(points), opsString(c.Ops)))
	return nil
}

func seamSummary(ps []faultPoint) string {
	m := map[string]int{}
	for _, p := range ps {
		m[p.F.Seam]++
	}
	var ks []string
	for k, n := range m {
		ks = append(ks, fmt.Sprintf("%s:%d", k, n))
	}
	sort.Strings(ks)
	return strings.Join(ks, " ")
}

// runFaultedChecked adds the C10 end-of-run oracle (locks free, handles closed,
// no goroutine left blocked) to runFaulted.
func runFaultedChecked(t *testing.T, c *Case, st *Stats, relax Relax, faults []Fault, snaps *[]map[string]int) (*Violation, *Devices) {
	return runFaultedPost(t, c, st, relax, faults, snaps, nil)
}

// runFaultedPost: post (if set) judges the state the faulted history left behind; it
// runs after the probes, inside the simulation, with fault injection switched off.
func runFaultedPost(t *testing.T, c *Case, st *Stats, relax Relax, faults []Fault, snaps *[]map[string]int, post func(stk *Stack, w *World) *Violation) (*Violation, *Devices) {
	var dev *Devices
	var held, leaked []string
	finished := false
	var hv *Violation
	out := RunBubble(t, c.Seed, BubbleOpts{Stick: 0.9}, func(s *Sched) {
		w, err := NewWorld(c.Cfg, s)
		if err != nil {
			hv = &Violation{Prop: c.Prop, Oracle: "harness", Detail: err.Error()}
			return
		}
		defer w.Close()
		stk, err := w.Open(OpenOpts{})
		defer func() {
			if stk != nil {
				stk.Close()
			}
		}()
		if err != nil {
			hv = &Violation{Prop: c.Prop, Oracle: "open", Detail: err.Error()}
			finished = true
			return
		}
		dev = w.Dev
		ex := NewExec(stk.FS, s)
		w.Dev.ResetCounts()
		w.Dev.SetPlan(faults)
		reopens := 0
		tapeLen := func() int64 {
			if fi, err := os.Stat(w.Drive); err == nil {
				return fi.Size()
			}
			return 0
		}
		for _, op := range c.Ops {
			before := tapeLen()
			failed := false
			switch op.K {
			case "reopen":
				// Initialize is a call like any other: it returns and leaves the drive free, also
				// when the replay of the tape into a lost index fails part-way. Whatever it
				// returned, the calls after it are made on the new instance
				ex.CloseAll()
				stk.Close()
				oo := OpenOpts{}
				if op.N == 1 {
					reopens++
					oo.Index = filepath.Join(w.Dir, fmt.Sprintf("reopen%d.sqlite", reopens))
				}
				nst, oerr := w.Open(oo)
				if nst == nil {
					hv = &Violation{Prop: c.Prop, Oracle: "harness", Detail: "reopen: no stack"}
					return
				}
				if oerr != nil {
					w.Dev.InitFailed = true
					failed = true
				}
				stk = nst
				ex = NewExec(stk.FS, s)
			case "reinit":
				_, ierr := stk.FS.Initialize("/", os.ModePerm)
				failed = ierr != nil
			case "archive":
				failed = faultyArchive(stk, op) != nil
			case "restore":
				failed = faultyRestore(stk, op) != nil
			default:
				r := ex.Do(op)
				failed = r.Class != "ok" && r.Class != "nohandle"
			}
			if failed && tapeLen() > before {
				// the call failed after part of its record(s) had reached the tape
				w.Dev.PartialAppend = true
			}
			if snaps != nil {
				*snaps = append(*snaps, w.Dev.Snapshot())
			}
		}
		ex.CloseAll()
		ex.Do(Op{K: "stat", P: "/"})
		ex.Do(Op{K: "mkdir", P: "/probe", M: 0o755})
		ex.Do(Op{K: "readfile", P: "/a"})
		if snaps != nil {
			*snaps = append(*snaps, w.Dev.Snapshot())
		}
		if b, err := os.ReadFile(w.Drive); err == nil {
			st.Mark("distinct_final_tapes", sumOf(b))
		}
		if post != nil {
			w.Dev.SetPlan(nil)
			w.Dev.Enabled = false
			hv = post(stk, w)
		}
		finished = true
	})
	held, leaked = out.Held, out.Leaked
	st.Add("sched_steps", int64(out.Steps))
	st.Mark("distinct_schedules", fmt.Sprintf("%x/%d", out.SwitchHash, out.Steps))
	if hv != nil {
		return hv, dev
	}
	if v := outcomeViolation(c.Prop, out, 0); v != nil {
		return v, dev
	}
	if !finished {
		return &Violation{Prop: c.Prop, Oracle: "harness", Detail: "run did not finish: " + out.BubblePanic}, dev
	}
	if len(held) > 0 {
		return &Violation{Prop: c.Prop, Oracle: "lock-left-held", Detail: "after all calls returned: " + strings.Join(held, "; ")}, dev
	}
	if len(leaked) > 0 {
		return &Violation{Prop: c.Prop, Oracle: "goroutine-left-blocked", Detail: "background goroutine(s) still blocked after all calls returned and all handles were closed: " + strings.Join(leaked, ", ")}, dev
	}
	if dev != nil && dev.OpenHandles > 0 {
		return &Violation{Prop: c.Prop, Oracle: "drive-handle-left-open", Detail: fmt.Sprintf("%d drive handle(s) still open after all calls returned", dev.OpenHandles)}, dev
	}
	return nil, dev
}

var _ = os.Getenv

// ---- caller-supplied data sources and sinks with fault seams

type faultySource struct {
	r *bytes.Reader
	d *Devices
}

func (f *faultySource) Read(p []byte) (int, error) {
	if _, ok := f.d.hit("source.read"); ok {
		return 0, ErrInjected
	}
	if len(p) > 700 {
		p = p[:700] // short reads are legal for an io.Reader
	}
	return f.r.Read(p)
}
func (f *faultySource) Seek(o int64, w int) (int64, error) {
	if _, ok := f.d.hit("source.seek"); ok {
		return 0, ErrInjected
	}
	return f.r.Seek(o, w)
}
func (f *faultySource) Close() error {
	if _, ok := f.d.hit("source.close"); ok {
		return ErrInjected
	}
	return nil
}

func faultyArchive(st *Stack, op Op) error {
	members := archiveMembers(op)
	i := 0
	d := st.W.Dev
	_, err := st.Write.Archive(func() (config.FileConfig, error) {
		if i >= len(members) {
			return config.FileConfig{}, io.EOF
		}
		m := members[i]
		i++
		b := m.D.Bytes()
		hdr := &tar.Header{Typeflag: tar.TypeReg, Name: m.P, Size: int64(len(b)), Mode: 0o644, ModTime: time.Now()}
		return config.FileConfig{
			GetFile: func() (io.ReadSeekCloser, error) {
				if _, ok := d.hit("source.open"); ok {
					return nil, ErrInjected
				}
				return &faultySource{r: bytes.NewReader(b), d: d}, nil
			},
			Info: hdr.FileInfo(), Path: m.P,
		}, nil
	}, st.Cfg.Level, false, false)
	return err
}

type faultySink struct{ d *Devices }

func (f *faultySink) Write(p []byte) (int, error) {
	if _, ok := f.d.hit("sink.write"); ok {
		return 0, ErrInjected
	}
	return len(p), nil
}
func (f *faultySink) Close() error {
	if _, ok := f.d.hit("sink.close"); ok {
		return ErrInjected
	}
	return nil
}

func faultyRestore(st *Stack, op Op) error {
	d := st.W.Dev
	return st.Read.Restore(
		func(p string, m fs.FileMode) (io.WriteCloser, error) {
			if _, ok := d.hit("sink.open"); ok {
				return nil, ErrInjected
			}
			return &faultySink{d: d}, nil
		},
		func(p string, m fs.FileMode) error { return nil },
		op.P, "", true)
}
