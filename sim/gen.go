package sim

import (
	"math/rand/v2"
	"os"
	"path"
	"strings"

	"github.com/pojntfx/stfs/pkg/config"
)

// ---------------------------------------------------------------- configs

var recordSizes = []int{1, 2, 3, 7, 20, 64, 128}

func GenConfig(r *rand.Rand, plainBias float64) Config {
	c := Config{Level: config.KnownCompressionLevels[r.IntN(3)], RecordSize: recordSizes[r.IntN(len(recordSizes))], Cache: config.KnownWriteCacheTypes[r.IntN(2)]}
	if r.Float64() < plainBias {
		return c
	}
	c.Compression = config.KnownCompressionFormats[r.IntN(len(config.KnownCompressionFormats))]
	c.Encryption = config.KnownEncryptionFormats[r.IntN(len(config.KnownEncryptionFormats))]
	c.Signature = config.KnownSignatureFormats[r.IntN(len(config.KnownSignatureFormats))]
	return c
}

// ---------------------------------------------------------------- names

var nameStyles = map[string][]string{
	"plain":   {"a", "b", "c", "d", "e1", "f2"},
	"sqlwild": {"a", "ab", "a_", "a%", "a b", "abc", "_", "%"},
	"unicode": {"é", "日本", "ü x", "a", "ñandú", "b"},
	"dots":    {"x.gz", "y.age", "z.zst", "w.pgp", ".h", "v.tar.lz4", "u.br", "t.bz2", "a.b", "t.", "s..", "..."},
	"long":    {strings.Repeat("L", 120), strings.Repeat("m", 101) + ".txt", "a", "b"},
	"quotes":  {"it's", `q"q`, "a\\b", "a:b", "c;d", "e"},
	"prefix":  {"a", "aa", "aaa", "a.a", "a-a", "b"},
}

var styleNames = []string{"plain", "sqlwild", "unicode", "dots", "long", "quotes", "prefix"}

type Universe struct {
	Style string
	Comps []string
}

// activeSuffixes lists the name suffixes the pipeline of cfg appends to content records.
func activeSuffixes(cfg Config) []string {
	var out []string
	switch cfg.Compression {
	case "gzip", "parallelgzip":
		out = append(out, ".gz")
	case "lz4":
		out = append(out, ".lz4")
	case "zstandard":
		out = append(out, ".zst")
	case "brotli":
		out = append(out, ".br")
	case "bzip2", "parallelbzip2":
		out = append(out, ".bz2")
	}
	switch cfg.Encryption {
	case "age":
		out = append(out, ".age")
	case "pgp":
		out = append(out, ".pgp")
	}
	return out
}

func GenUniverseAvoid(r *rand.Rand, style string, avoid []string) Universe {
	u := GenUniverse(r, style)
	var keep []string
	for _, c := range u.Comps {
		bad := false
		for _, a := range avoid {
			if strings.HasSuffix(c, a) {
				bad = true
			}
		}
		if !bad {
			keep = append(keep, c)
		}
	}
	if len(keep) == 0 {
		keep = []string{"a", "b"}
	}
	u.Comps = keep
	return u
}

func GenUniverse(r *rand.Rand, style string) Universe {
	if style == "" {
		if r.Float64() < 0.35 {
			style = "plain"
		} else {
			style = styleNames[r.IntN(len(styleNames))]
		}
	}
	comps := append([]string(nil), nameStyles[style]...)
	if style != "plain" && r.Float64() < 0.5 {
		// mix in a second style
		other := nameStyles[styleNames[r.IntN(len(styleNames))]]
		comps = append(comps, other[r.IntN(len(other))], other[r.IntN(len(other))])
	}
	r.Shuffle(len(comps), func(i, j int) { comps[i], comps[j] = comps[j], comps[i] })
	if len(comps) > 6 {
		comps = comps[:6]
	}
	return Universe{Style: style, Comps: comps}
}

func (u Universe) comp(r *rand.Rand) string { return u.Comps[r.IntN(len(u.Comps))] }

func (u Universe) randPath(r *rand.Rand, maxDepth int) string {
	d := 1 + r.IntN(maxDepth)
	p := "/"
	for i := 0; i < d; i++ {
		p = path.Join(p, u.comp(r))
	}
	return p
}

// ---------------------------------------------------------------- contents

func GenData(r *rand.Rand, rs int, tag *uint32) *Data {
	*tag++
	rec := rs * 512
	sizes := []int{0, 1, 9, 511, 512, 513, 1000, 4096, rec - 1, rec, rec + 1, 2*rec + 17}
	n := sizes[r.IntN(len(sizes))]
	if n > 70000 {
		n = 70000 + r.IntN(1000)
	}
	if n < 0 {
		n = 0
	}
	kinds := []string{"zeros", "text", "rand"}
	return &Data{Len: n, Kind: kinds[r.IntN(3)], Tag: *tag}
}

// ---------------------------------------------------------------- histories

type GenOpts struct {
	MaxOps     int
	Style      string
	Symlinks   bool
	Handles    bool // openfile/write/close groups
	Interleave bool // namespace calls between the calls of a handle group
	Init       []Op // calls that have already happened: they steer the generation, they are not emitted
	Reads      bool // readfile / stat ops
	Sleeps     bool
	ValidBias  float64
	RS         int
	NoRename   bool
	// known-finding relaxations
	AvoidSuffixes   []string // KF1: names ending in the active pipeline suffix
	NoSymlinkRename bool     // KF7: rename of a directory holding a symlink target
}

type genState struct {
	r    *rand.Rand
	u    Universe
	ref  *RefFS
	o    GenOpts
	tag  uint32
	now  int64
	ops  []Op
	nexH int
}

func (g *genState) emit(op Op) ExpRes {
	g.ops = append(g.ops, op)
	return g.ref.Apply(op)
}

func (g *genState) pick(xs []string) string { return xs[g.r.IntN(len(xs))] }

func (g *genState) existingDir() string {
	d, _ := g.ref.Paths()
	return g.pick(d)
}

func (g *genState) existingAny() (string, bool) {
	d, f := g.ref.Paths()
	all := append(append([]string(nil), d[1:]...), f...) // without root
	if len(all) == 0 {
		return "", false
	}
	return g.pick(all), true
}

func (g *genState) existingFile() (string, bool) {
	_, f := g.ref.Paths()
	if len(f) == 0 {
		return "", false
	}
	return g.pick(f), true
}

func (g *genState) newPath() string {
	if g.r.Float64() < g.o.ValidBias {
		return path.Join(g.existingDir(), g.u.comp(g.r))
	}
	return g.u.randPath(g.r, 3)
}

func (g *genState) anyPath() string {
	if g.r.Float64() < g.o.ValidBias {
		if p, ok := g.existingAny(); ok {
			return p
		}
	}
	return g.u.randPath(g.r, 3)
}

var openFlagSets = []int{
	os.O_RDONLY, os.O_WRONLY, os.O_RDWR,
	os.O_WRONLY | os.O_CREATE, os.O_RDWR | os.O_CREATE,
	os.O_WRONLY | os.O_CREATE | os.O_TRUNC, os.O_RDWR | os.O_CREATE | os.O_TRUNC,
	os.O_WRONLY | os.O_CREATE | os.O_EXCL, os.O_RDWR | os.O_CREATE | os.O_EXCL,
	os.O_WRONLY | os.O_APPEND, os.O_RDWR | os.O_APPEND, os.O_WRONLY | os.O_CREATE | os.O_APPEND,
	os.O_WRONLY | os.O_TRUNC, os.O_RDWR | os.O_TRUNC,
	os.O_RDWR | os.O_CREATE | os.O_APPEND | os.O_TRUNC,
}

var perms = []uint32{0o755, 0o700, 0o644, 0o600, 0o777, 0o444, 0o500, 0o666, 0}

// GenHistory generates a sequential history steered by the reference model.
func GenHistory(r *rand.Rand, o GenOpts) ([]Op, Universe) {
	if o.MaxOps == 0 {
		o.MaxOps = 12
	}
	if o.ValidBias == 0 {
		o.ValidBias = 0.8
	}
	if o.RS == 0 {
		o.RS = 20
	}
	if o.Symlinks && o.NoSymlinkRename {
		// KF7: histories with symlinks do not rename
		o.NoRename = true
	}
	g := &genState{r: r, u: GenUniverseAvoid(r, o.Style, o.AvoidSuffixes), o: o, now: 946684800}
	g.ref = NewRefFS(func() int64 { return g.now * 1e9 }, 0o777)
	for _, op := range o.Init {
		g.ref.Apply(op)
		if op.D != nil && op.D.Tag > g.tag {
			g.tag = op.D.Tag
		}
	}
	for h := range g.ref.H {
		g.ref.Apply(Op{K: "h.close", H: h})
	}
	if o.Sleeps && r.Float64() < 0.7 {
		// start off a whole second: sub-second timestamps
		g.emit(Op{K: "sleep", N: 1 + r.IntN(999999999)})
	}
	n := 1 + r.IntN(o.MaxOps)
	if r.Float64() < 0.5 && n > 8 {
		n = 1 + r.IntN(8)
	}
	// swarm: re-draw weights per history
	type gen struct {
		w int
		f func()
	}
	w := func(max int) int {
		if r.Float64() < 0.25 {
			return 0
		}
		return 1 + r.IntN(max)
	}
	gens := []gen{
		{w(6), func() { g.emit(Op{K: "mkdir", P: g.newPath(), M: perms[r.IntN(len(perms))]}) }},
		{w(3), func() { g.emit(Op{K: "mkdirall", P: g.u.randPath(r, 3), M: perms[r.IntN(3)]}) }},
		{w(8), func() {
			p := g.newPath()
			if r.Float64() < 0.3 {
				if f, ok := g.existingFile(); ok {
					p = f
				}
			}
			g.emit(Op{K: "writefile", P: p, D: GenData(r, o.RS, &g.tag)})
		}},
		{w(4), func() { g.emit(Op{K: "remove", P: g.anyPath()}) }},
		{w(3), func() { g.emit(Op{K: "removeall", P: g.anyPath()}) }},
		{w(3), func() { g.emit(Op{K: "chmod", P: g.anyPath(), M: perms[r.IntN(len(perms))]}) }},
		{w(2), func() { g.emit(Op{K: "chown", P: g.anyPath(), U: 1000 + r.IntN(5), G: 100 + r.IntN(5)}) }},
		{w(2), func() {
			ns := 0
			if r.Float64() < 0.5 {
				ns = r.IntN(1e9) // sub-second timestamps
			}
			g.emit(Op{K: "chtimes", P: g.anyPath(), T1: 1000000000 + int64(r.IntN(1e8)), T2: 1100000000 + int64(r.IntN(1e8)), N: ns})
		}},
	}
	if !o.NoRename {
		gens = append(gens, gen{w(6), func() {
			src := g.anyPath()
			var dst string
			switch r.IntN(5) {
			case 0: // onto an existing entry
				dst = g.anyPath()
			case 1: // into own subtree
				dst = path.Join(src, g.u.comp(r))
			case 2: // sibling
				dst = path.Join(path.Dir(src), g.u.comp(r))
			default:
				dst = g.newPath()
			}
			g.emit(Op{K: "rename", P: src, Q: dst})
		}})
	}
	if o.Reads {
		gens = append(gens,
			gen{w(3), func() { g.emit(Op{K: "stat", P: g.anyPath()}) }},
			gen{w(3), func() {
				if f, ok := g.existingFile(); ok && r.Float64() < 0.9 {
					g.emit(Op{K: "readfile", P: f})
				} else {
					g.emit(Op{K: "readfile", P: g.anyPath()})
				}
			}},
		)
	}
	if o.Sleeps {
		gens = append(gens, gen{w(2), func() {
			d := []int64{0, 1, 60, 3600, 86400, 86400 * 365, 86400 * 365 * 30}[r.IntN(7)]
			ns := 1 + r.IntN(999999999) // the clock is rarely on a whole second
			g.now += d
			g.emit(Op{K: "sleep", O: d, N: ns})
		}})
	}
	if o.Handles {
		gens = append(gens, gen{w(6), func() {
			// open (any flag set) / a few writes / close, as one group
			g.nexH++
			h := g.nexH
			p := g.anyPath()
			if r.Float64() < 0.5 {
				if f, ok := g.existingFile(); ok {
					p = f
				}
			}
			var e ExpRes
			if r.Float64() < 0.25 {
				e = g.emit(Op{K: "create", P: p, H: h})
			} else {
				e = g.emit(Op{K: "openfile", P: p, H: h, F: openFlagSets[r.IntN(len(openFlagSets))], M: perms[r.IntN(len(perms))]})
			}
			if e.Class != "ok" {
				return
			}
			interleave := func() {
				// calls on the namespace while the (write) handle is open: the entry's
				// attributes change, it is removed, other entries come and go. Renaming
				// an open entry is not generated (no uniform reference behaviour).
				if !o.Interleave || r.Float64() > 0.45 {
					return
				}
				switch r.IntN(10) {
				case 0:
					g.emit(Op{K: "chmod", P: p, M: perms[r.IntN(len(perms))]})
				case 1:
					g.emit(Op{K: "chown", P: p, U: 1000 + r.IntN(5), G: 100 + r.IntN(5)})
				case 2:
					g.emit(Op{K: "chtimes", P: p, T1: 1000000000 + int64(r.IntN(1e8)), T2: 1100000000 + int64(r.IntN(1e8)), N: r.IntN(2) * r.IntN(1e9)})
				case 3:
					g.emit(Op{K: "stat", P: p})
				case 4:
					g.emit(Op{K: "remove", P: p})
				case 5:
					g.emit(Op{K: "mkdir", P: g.newPath(), M: 0o755})
				case 6:
					q := g.newPath()
					if q != p {
						g.emit(Op{K: "writefile", P: q, D: GenData(r, o.RS, &g.tag)})
					}
				case 7:
					if d := path.Dir(p); d != "/" {
						g.emit(Op{K: "removeall", P: d})
					}
				case 8, 9:
					// the name changes its kind under the open handle
					if e := g.emit(Op{K: "remove", P: p}); e.Class == "ok" {
						if e := g.emit(Op{K: "mkdir", P: p, M: 0o755}); e.Class == "ok" && r.IntN(2) == 0 {
							g.emit(Op{K: "writefile", P: path.Join(p, g.u.comp(r)), D: GenData(r, o.RS, &g.tag)})
						}
					}
				}
			}
			interleave()
			for i := r.IntN(3); i > 0; i-- {
				switch r.IntN(4) {
				case 0:
					g.emit(Op{K: "h.writestring", H: h, D: GenData(r, o.RS, &g.tag)})
				case 1:
					g.emit(Op{K: "h.stat", H: h})
				default:
					g.emit(Op{K: "h.write", H: h, D: GenData(r, o.RS, &g.tag)})
				}
				interleave()
			}
			if r.Float64() < 0.2 {
				g.emit(Op{K: "h.sync", H: h})
			}
			g.emit(Op{K: "h.close", H: h})
		}})
		gens = append(gens, gen{w(2), func() {
			// read stream that is opened, positioned and closed again (its background restore may
			// still be on its way to the drive when the next call starts); reads are whole-file
			// single-call reads (KF6)
			p, ok := g.existingFile()
			if !ok {
				return
			}
			g.nexH++
			h := g.nexH
			if e := g.emit(Op{K: "open", P: p, H: h}); e.Class != "ok" {
				return
			}
			switch r.IntN(3) {
			case 0:
				g.emit(Op{K: "h.seek", H: h, O: 0, W: 0})
			case 1:
				g.emit(Op{K: "h.seek", H: h, O: int64(r.IntN(4)), W: 0})
				g.emit(Op{K: "h.read", H: h, N: 1 << 17})
			case 2:
				g.emit(Op{K: "h.read", H: h, N: 1 << 17})
			}
			g.emit(Op{K: "h.close", H: h})
		}})
		gens = append(gens, gen{w(2), func() {
			// directory handle listing
			g.nexH++
			h := g.nexH
			e := g.emit(Op{K: "open", P: g.existingDir(), H: h})
			if e.Class != "ok" {
				return
			}
			if r.Float64() < 0.5 {
				g.emit(Op{K: "h.readdir", H: h, N: r.IntN(5) - 1})
			} else {
				g.emit(Op{K: "h.readdirnames", H: h, N: r.IntN(5) - 1})
			}
			g.emit(Op{K: "h.close", H: h})
		}})
	}
	if o.Symlinks {
		gens = append(gens, gen{w(2), func() {
			if t, ok := g.existingAny(); ok {
				// symlinks are outside the model: the op is recorded, the model is not told
				g.ops = append(g.ops, Op{K: "symlink", P: t, Q: g.newPath()})
			}
		}})
	}
	total := 0
	for _, x := range gens {
		total += x.w
	}
	if total == 0 {
		gens[0].w, total = 1, 1
	}
	// a swarm selection can leave only generators that cannot act in the current state (e.g. only
	// symlinks and nothing to link to): bounded attempts, then the history simply stays shorter
	for tries := 0; len(g.ops) < n && tries < 20*n+100; tries++ {
		k := r.IntN(total)
		for _, x := range gens {
			if k < x.w {
				x.f()
				break
			}
			k -= x.w
		}
	}
	return g.ops, g.u
}
