package sim

import (
	"bufio"
	"encoding/json"
	"fmt"
	"math/rand/v2"
	"os"
	"os/exec"
	"path/filepath"
	"runtime/debug"
	"sort"
	"strconv"
	"strings"
	"sync"
	"sync/atomic"
	"testing"
	"time"

	"github.com/spf13/afero"
)

// One test binary, three roles (VERIF_MODE): super, worker, replay.

// verifRoot is where known_findings.json and findings/ live (the check script's directory).
var verifRoot = func() string {
	if r := os.Getenv("VERIF_ROOT"); r != "" {
		return r
	}
	return "/verif"
}()

// workRoot is where replays, evidence and per-run output go (VERIF_WORK lets a
// scratch run against another repository copy keep its files apart).
func workRoot() string {
	if w := os.Getenv("VERIF_WORK"); w != "" {
		return w
	}
	return verifRoot
}

func envInt(k string, def int) int {
	if v := os.Getenv(k); v != "" {
		if n, err := strconv.Atoi(v); err == nil {
			return n
		}
	}
	return def
}

func envU64(k string, def uint64) uint64 {
	if v := os.Getenv(k); v != "" {
		if n, err := strconv.ParseUint(v, 10, 64); err == nil {
			return n
		}
		if n, err := strconv.ParseInt(v, 10, 64); err == nil {
			return uint64(n)
		}
	}
	return def
}

func tierOf() string {
	if os.Getenv("VERIF_TIER") == "thorough" {
		return "thorough"
	}
	return "quick"
}

func TestVerif(t *testing.T) {
	switch os.Getenv("VERIF_MODE") {
	case "worker":
		workerMain(t)
	case "replay":
		replayMain(t)
	case "super":
		os.Exit(superMain(t))
	case "race":
		raceMain(t)
	default:
		t.Skip("VERIF_MODE not set")
	}
}

// ---------------------------------------------------------------- worker

type wline struct {
	Type   string     `json:"type"` // start | end | stats | violation
	Idx    uint64     `json:"idx"`
	Seed   uint64     `json:"seed,omitempty"`
	V      *Violation `json:"v,omitempty"`
	Replay string     `json:"replay,omitempty"`
	Stats  *Stats     `json:"stats,omitempty"`
	Ms     int64      `json:"ms,omitempty"`
}

func parseRelax(s string) Relax {
	r := Relax{}
	for _, x := range strings.Split(s, ",") {
		if x != "" {
			r[x] = true
		}
	}
	return r
}

func workerMain(t *testing.T) {
	prop := os.Getenv("VERIF_PROP")
	ck := Checks[prop]
	if ck == nil {
		fmt.Fprintln(os.Stderr, "unknown property", prop)
		os.Exit(2)
	}
	master := envU64("VERIF_SEED", 1)
	wi, nw := envInt("VERIF_WORKER", 0), envInt("VERIF_NW", 1)
	runs := envInt("VERIF_RUNS", 10)
	budget := time.Duration(envInt("VERIF_BUDGET_S", 60)) * time.Second
	relax := parseRelax(os.Getenv("VERIF_RELAX"))
	tier := tierOf()
	out, err := os.OpenFile(os.Getenv("VERIF_OUT"), os.O_CREATE|os.O_WRONLY|os.O_TRUNC, 0o644)
	if err != nil {
		fmt.Fprintln(os.Stderr, err)
		os.Exit(2)
	}
	defer out.Close()
	emit := func(l wline) {
		b, _ := json.Marshal(l)
		out.Write(append(b, '\n'))
	}
	hbFunc = func() { emit(wline{Type: "hb"}) }
	st := NewStats()
	deadline := time.Now().Add(budget)
	for idx := uint64(wi); idx < uint64(runs); idx += uint64(nw) {
		if time.Now().After(deadline) {
			break
		}
		seed := mix(master, idx)
		r := rand.New(rand.NewPCG(seed, 0xC0FFEE))
		c := ck.Gen(r, tier, relax)
		c.Prop, c.Seed, c.Tier = prop, seed, tier
		emit(wline{Type: "start", Idx: idx, Seed: seed})
		t0 := time.Now()
		v := ck.Eval(t, c, st, relax)
		if ck.MaxWorkers > 0 {
			debug.FreeOSMemory() // memory-hungry runs: give the pages back before the next one
		}
		st.Evals++
		if v != nil && v.Oracle == "harness" {
			fmt.Fprintln(os.Stderr, "harness failure:", v.Detail)
			emit(wline{Type: "harness", Idx: idx, V: v})
			os.Exit(2)
		}
		if v != nil {
			c.Expect = v
			raw := filepath.Join(workRoot(), "replays", fmt.Sprintf("%s-%d-%d.raw.json", prop, master, idx))
			writeCase(raw, c)
			m := minimise(t, ck, c, v, relax, 90*time.Second)
			min := filepath.Join(workRoot(), "replays", fmt.Sprintf("%s-%d-%d.json", prop, master, idx))
			writeCase(min, m)
			emit(wline{Type: "violation", Idx: idx, Seed: seed, V: m.Expect, Replay: min})
			break
		}
		if detOn {
			if os.Getenv("VERIF_DET") == "2" {
				b, _ := json.Marshal(c)
				fmt.Println("DETCASE", string(b))
			}
			fmt.Printf("DET %s %d %016x\n", prop, idx, detTake())
		}
		emit(wline{Type: "end", Idx: idx, Ms: time.Since(t0).Milliseconds()})
	}
	st.Export()
	emit(wline{Type: "stats", Stats: st})
}

func writeCase(p string, c *Case) {
	os.MkdirAll(filepath.Dir(p), 0o755)
	b, _ := json.MarshalIndent(c, "", " ")
	os.WriteFile(p, b, 0o644)
}

func readCase(p string) (*Case, error) {
	b, err := os.ReadFile(p)
	if err != nil {
		return nil, err
	}
	c := &Case{}
	if err := json.Unmarshal(b, c); err != nil {
		return nil, err
	}
	return c, nil
}

// ---------------------------------------------------------------- minimiser

// minimise shrinks ops / programs / faults / config while the same oracle fails.
func minimise(t *testing.T, ck *Check, c *Case, v *Violation, relax Relax, budget time.Duration) *Case {
	deadline := time.Now().Add(budget)
	best := c.Clone()
	best.Expect = v
	evals := 0
	try := func(cand *Case) bool {
		if time.Now().After(deadline) || evals > 400 {
			return false
		}
		evals++
		nv := ck.Eval(t, cand, NewStats(), relax)
		if nv != nil && nv.Oracle == v.Oracle {
			cand.Expect = nv
			best = cand
			return true
		}
		return false
	}
	// 1. ddmin over the op list(s)
	shrinkList := func(get func(*Case) []Op, set func(*Case, []Op)) {
		n := 2
		for len(get(best)) >= 1 {
			ops := get(best)
			if n > len(ops) {
				n = len(ops)
			}
			chunk := (len(ops) + n - 1) / n
			reduced := false
			for i := 0; i < len(ops); i += chunk {
				cand := best.Clone()
				rest := append(append([]Op(nil), ops[:i]...), ops[min(i+chunk, len(ops)):]...)
				set(cand, rest)
				if try(cand) {
					reduced = true
					n = max(n-1, 2)
					break
				}
			}
			if !reduced {
				if chunk == 1 {
					break
				}
				n = min(n*2, len(ops))
			}
			if time.Now().After(deadline) {
				break
			}
		}
	}
	if len(best.Ops) > 0 {
		shrinkList(func(c *Case) []Op { return c.Ops }, func(c *Case, o []Op) { c.Ops = o })
	}
	for pi := range best.Progs {
		pi := pi
		shrinkList(func(c *Case) []Op { return c.Progs[pi] }, func(c *Case, o []Op) { c.Progs[pi] = o })
	}
	// drop empty programs
	if len(best.Progs) > 0 {
		cand := best.Clone()
		var ps [][]Op
		for _, p := range cand.Progs {
			if len(p) > 0 {
				ps = append(ps, p)
			}
		}
		cand.Progs = ps
		try(cand)
	}
	// 2. drop faults
	for i := 0; i < len(best.Faults); {
		cand := best.Clone()
		cand.Faults = append(cand.Faults[:i], cand.Faults[i+1:]...)
		if !try(cand) {
			i++
		}
	}
	// 3. simpler pipeline configuration
	for _, f := range []func(*Config){
		func(c *Config) { c.Compression, c.Encryption, c.Signature = "", "", "" },
		func(c *Config) { c.Encryption = "" },
		func(c *Config) { c.Signature = "" },
		func(c *Config) { c.Compression = "" },
		func(c *Config) { c.Cache = "memory" },
		func(c *Config) { c.RecordSize = 20 },
	} {
		cand := best.Clone()
		before := cand.Cfg
		f(&cand.Cfg)
		if cand.Cfg != before {
			try(cand)
		}
	}
	// 4. smaller contents
	for i := range best.Ops {
		if d := best.Ops[i].D; d != nil && d.Len > 1 {
			for _, l := range []int{0, 1, 16} {
				if l >= d.Len {
					continue
				}
				cand := best.Clone()
				cand.Ops[i].D.Len = l
				if try(cand) {
					break
				}
			}
		}
	}
	best.Note = fmt.Sprintf("minimised from %d ops in %d evaluations", len(c.Ops)+progLen(c.Progs), evals)
	return best
}

func progLen(p [][]Op) int {
	n := 0
	for _, x := range p {
		n += len(x)
	}
	return n
}

// ---------------------------------------------------------------- replay

type replayResult struct {
	V     *Violation `json:"violation"`
	Match bool       `json:"match"`
}

func replayMain(t *testing.T) {
	c, err := readCase(os.Getenv("VERIF_REPLAY"))
	if err != nil {
		fmt.Fprintln(os.Stderr, err)
		os.Exit(2)
	}
	ck := Checks[c.Prop]
	if ck == nil {
		fmt.Fprintln(os.Stderr, "unknown property in replay file:", c.Prop)
		os.Exit(2)
	}
	relax := parseRelax(os.Getenv("VERIF_RELAX"))
	hbFunc = func() { fmt.Println("HB") }
	var v *Violation
	if c.S["mode"] == "race" {
		// replay of a data race: run the case free-running in the -race build
		bin := filepath.Join(workRoot(), "build", "sim.race.test")
		cmd := exec.Command(bin, "-test.run", "^TestVerif$", "-test.timeout", "0")
		cmd.Env = append(os.Environ(), "VERIF_MODE=race", "GOMAXPROCS=4", "GORACE=halt_on_error=1 exitcode=66")
		out, _ := cmd.CombinedOutput()
		if i := strings.Index(string(out), "WARNING: DATA RACE"); i >= 0 && strings.Contains(string(out)[i:], "github.com/pojntfx/stfs/") {
			v = &Violation{Prop: c.Prop, Oracle: "data-race", Detail: tail(string(out)[i:], 2500)}
		} else if i := strings.Index(string(out), "RACE-LIN-VIOLATION "); i >= 0 {
			line := string(out)[i+len("RACE-LIN-VIOLATION "):]
			if j := strings.Index(line, "\n"); j >= 0 {
				line = line[:j]
			}
			var lv Violation
			if json.Unmarshal([]byte(line), &lv) == nil {
				v = &lv
			}
		}
	} else {
		// a case with a real-thread phase (C18 "par") overlaps two free-running goroutines: as for the
		// real-thread supplement of C11 a replay gets several attempts to meet the overlap again
		tries := 1
		if c.Param("par", 0) > 0 {
			tries = 10
		}
		for i := 0; i < tries && v == nil; i++ {
			v = ck.Eval(t, c, NewStats(), relax)
		}
	}
	res := replayResult{V: v}
	if v != nil && c.Expect != nil && v.Oracle == c.Expect.Oracle {
		res.Match = true
	}
	b, _ := json.Marshal(res)
	fmt.Println("REPLAY-RESULT " + string(b))
	if os.Getenv("VERIF_VERBOSE") != "" && v != nil {
		fmt.Println(v.String())
	}
}

func runReplay(path string, relax string) (*replayResult, error) {
	cmd := exec.Command(os.Args[0], "-test.run", "^TestVerif$", "-test.timeout", "0")
	cmd.Env = append(os.Environ(), "VERIF_MODE=replay", "VERIF_REPLAY="+path, "VERIF_RELAX="+relax, "GOMAXPROCS=2")
	pr, pw, err := os.Pipe()
	if err != nil {
		return nil, err
	}
	cmd.Stdout, cmd.Stderr = pw, pw
	if err := cmd.Start(); err != nil {
		return nil, err
	}
	pw.Close()
	lines := make(chan string, 64)
	go func() {
		sc := bufio.NewScanner(pr)
		sc.Buffer(make([]byte, 1<<20), 64<<20)
		for sc.Scan() {
			lines <- sc.Text()
		}
		close(lines)
	}()
	quiet := time.Duration(envInt("VERIF_RUN_TIMEOUT_S", 150)) * time.Second
	var out []string
	timer := time.NewTimer(quiet)
	for {
		select {
		case l, ok := <-lines:
			if !ok {
				cmd.Wait()
				for _, l := range out {
					if strings.HasPrefix(l, "REPLAY-RESULT ") {
						r := &replayResult{}
						if e := json.Unmarshal([]byte(l[len("REPLAY-RESULT "):]), r); e != nil {
							return nil, e
						}
						return r, nil
					}
				}
				return nil, fmt.Errorf("replay process died without a result: %s", tail(strings.Join(out, "\n"), 2500))
			}
			if l != "HB" {
				out = append(out, l)
			}
			if !timer.Stop() {
				select {
				case <-timer.C:
				default:
				}
			}
			timer.Reset(quiet)
		case <-timer.C:
			cmd.Process.Kill()
			cmd.Wait()
			return nil, fmt.Errorf("replay process showed no sign of life for %v (spinning or blocked outside the simulator)", quiet)
		}
	}
}

// ---------------------------------------------------------------- known findings

type Finding struct {
	ID       string `json:"id"`
	Property string `json:"property"`
	Status   string `json:"status"` // open | fixed
	Oracle   string `json:"oracle"`
	What     string `json:"what"`
	Replay   string `json:"replay"` // relative to /verif
	Commit   string `json:"commit,omitempty"`
	Relax    string `json:"relaxation,omitempty"`
	// Also: further properties whose checks use the same reference model and
	// therefore need the same relaxation while the finding is open
	Also []string `json:"also,omitempty"`
}

func (f Finding) concerns(prop string) bool {
	if f.Property == prop {
		return true
	}
	for _, a := range f.Also {
		if a == prop {
			return true
		}
	}
	return false
}

func loadFindings() ([]Finding, error) {
	b, err := os.ReadFile(filepath.Join(verifRoot, "known_findings.json"))
	if err != nil {
		if os.IsNotExist(err) {
			return nil, nil
		}
		return nil, err
	}
	var fs struct {
		Findings []Finding `json:"findings"`
	}
	if err := json.Unmarshal(b, &fs); err != nil {
		return nil, err
	}
	return fs.Findings, nil
}

// ---------------------------------------------------------------- supervisor

func superMain(t *testing.T) int {
	prop := os.Getenv("VERIF_PROP")
	ck := Checks[prop]
	if ck == nil {
		fmt.Println("unknown property", prop)
		return 2
	}
	tier := tierOf()
	master := envU64("VERIF_SEED", 1)
	start := time.Now()
	runs, secs := ck.QuickRuns, ck.QuickSecs
	if tier == "thorough" {
		runs, secs = ck.ThoroughRuns, ck.ThoroughSecs
	}
	runs = envInt("VERIF_RUNS", runs)
	secs = envInt("VERIF_BUDGET_S", secs)
	nw := envInt("VERIF_NW", 16)
	if ck.MaxWorkers > 0 && nw > ck.MaxWorkers {
		nw = ck.MaxWorkers
	}
	if nw > runs {
		nw = max(runs, 1)
	}
	fmt.Printf("check %s tier=%s seed=%d runs<=%d budget=%ds workers=%d\n", prop, tier, master, runs, secs, nw)

	// 1. known findings: replay each, decide relaxations
	finds, err := loadFindings()
	if err != nil {
		fmt.Println("known_findings.json unreadable:", err)
		return 2
	}
	relax := []string{}
	violations := []string{}
	nKnown := 0
	// open findings first (they decide the relaxations), then the regression
	// replays of fixed findings, which run under those relaxations
	sort.SliceStable(finds, func(i, j int) bool { return finds[i].Status == "open" && finds[j].Status != "open" })
	for _, f := range finds {
		if !f.concerns(prop) || f.Replay == "" {
			continue
		}
		rp := filepath.Join(verifRoot, f.Replay)
		rl := ""
		if f.Status != "open" {
			rl = strings.Join(relax, ",")
		}
		res, err := runReplay(rp, rl)
		if err != nil {
			fmt.Println("replay of finding", f.ID, "failed to run:", err)
			return 2
		}
		fails := res.V != nil && res.V.Oracle == f.Oracle
		switch f.Status {
		case "open":
			if fails {
				fmt.Printf("KNOWN-FINDING: property=%s %s: %s\n", prop, f.ID, f.What)
				nKnown++
				if f.Relax != "" {
					relax = append(relax, f.Relax)
				}
			} else if res.V != nil {
				fmt.Printf("finding %s replay now fails differently: %s\n", f.ID, res.V)
				violations = append(violations, fmt.Sprintf("VIOLATION property=%s replay=%s", prop, rp))
			}
		case "fixed":
			if res.V != nil {
				fmt.Printf("regression of fixed finding %s: %s\n", f.ID, res.V)
				violations = append(violations, fmt.Sprintf("VIOLATION property=%s replay=%s", prop, rp))
			}
		}
	}
	relaxCSV := strings.Join(relax, ",")

	// 2. workers
	if old, _ := filepath.Glob(filepath.Join(workRoot(), "replays", prop+"-*.json")); len(old) > 0 {
		for _, f := range old {
			os.Remove(f)
		}
	}
	outDir := filepath.Join(workRoot(), "build", "out", prop)
	os.RemoveAll(outDir)
	os.MkdirAll(outDir, 0o755)
	type wres struct {
		lines []wline
		err   error
		log   string
	}
	results := make([]wres, nw)
	var wg sync.WaitGroup
	perRunTimeout := time.Duration(envInt("VERIF_RUN_TIMEOUT_S", 150)) * time.Second
	for i := 0; i < nw; i++ {
		wg.Add(1)
		go func(i int) {
			defer wg.Done()
			outp := filepath.Join(outDir, fmt.Sprintf("w%d.jsonl", i))
			cmd := exec.Command(os.Args[0], "-test.run", "^TestVerif$", "-test.timeout", "0")
			cmd.Env = append(os.Environ(), "VERIF_MODE=worker", fmt.Sprintf("VERIF_WORKER=%d", i), fmt.Sprintf("VERIF_NW=%d", nw),
				fmt.Sprintf("VERIF_RUNS=%d", runs), fmt.Sprintf("VERIF_BUDGET_S=%d", secs), "VERIF_OUT="+outp, "VERIF_RELAX="+relaxCSV,
				fmt.Sprintf("VERIF_SEED=%d", master), "VERIF_TIER="+tier, "GOMAXPROCS=2")
			// soft heap limit: key parsing / derivation (scrypt) allocates a gigabyte at a time; collect the
			// previous one before the next one allocates (sixteen workers at 3-4 GB each met the OOM killer)
			if os.Getenv("GOMEMLIMIT") == "" {
				cmd.Env = append(cmd.Env, "GOMEMLIMIT=1536MiB")
			}
			logf, _ := os.Create(filepath.Join(outDir, fmt.Sprintf("w%d.log", i)))
			cmd.Stdout, cmd.Stderr = logf, logf
			if err := cmd.Start(); err != nil {
				results[i].err = err
				return
			}
			done := make(chan error, 1)
			go func() { done <- cmd.Wait() }()
			// watchdog: the output file must grow
			lastSize, lastChange := int64(-1), time.Now()
			tick := time.NewTicker(2 * time.Second)
			defer tick.Stop()
		loop:
			for {
				select {
				case err := <-done:
					results[i].err = err
					break loop
				case <-tick.C:
					if fi, err := os.Stat(outp); err == nil && fi.Size() != lastSize {
						lastSize, lastChange = fi.Size(), time.Now()
					}
					if time.Since(lastChange) > perRunTimeout {
						cmd.Process.Kill()
						results[i].err = fmt.Errorf("watchdog: no progress for %v", perRunTimeout)
						<-done
						break loop
					}
				}
			}
			logf.Close()
			if f, err := os.Open(outp); err == nil {
				sc := bufio.NewScanner(f)
				sc.Buffer(make([]byte, 1<<20), 64<<20)
				for sc.Scan() {
					var l wline
					if json.Unmarshal(sc.Bytes(), &l) == nil {
						results[i].lines = append(results[i].lines, l)
					}
				}
				f.Close()
			}
			if b, err := os.ReadFile(filepath.Join(outDir, fmt.Sprintf("w%d.log", i))); err == nil {
				s := string(b)
				if len(s) > 4000 {
					s = s[len(s)-4000:]
				}
				results[i].log = s
			}
		}(i)
	}
	wg.Wait()

	// 3. collect
	total := NewStats()
	broken := false
	type diedRun struct {
		worker    int
		idx, seed uint64
		log       string
	}
	var died []diedRun
	var msSum int64
	for i, r := range results {
		started := map[uint64]uint64{}
		gotStats := false
		for _, l := range r.lines {
			switch l.Type {
			case "start":
				started[l.Idx] = l.Seed
			case "end":
				delete(started, l.Idx)
				msSum += l.Ms
			case "violation":
				delete(started, l.Idx)
				// confirm in a fresh process
				res, err := runReplay(l.Replay, relaxCSV)
				// with a concurrent codec the k-th byte-level drive call is not
				// exactly repeatable (helper goroutines read ahead): retry
				for try := 0; try < 4 && err == nil && !res.Match; try++ {
					if c, e := readCase(l.Replay); e != nil || !asyncCodec(c.Cfg) {
						break
					}
					res, err = runReplay(l.Replay, relaxCSV)
				}
				if err != nil {
					fmt.Println("replay of", l.Replay, "did not run:", err)
					broken = true
					continue
				}
				if res.Match {
					fmt.Printf("violation: %s\n", res.V)
					violations = append(violations, fmt.Sprintf("VIOLATION property=%s replay=%s", prop, l.Replay))
				} else {
					fmt.Printf("NOT REPRODUCIBLE (harness determinism problem): %s expected %v got %v\n", l.Replay, l.V, res.V)
					broken = true
				}
			case "stats":
				gotStats = true
				total.Merge(l.Stats)
			case "harness":
				fmt.Println("harness failure in worker", i, ":", l.V.Detail)
				broken = true
			}
		}
		if !gotStats || len(started) > 0 {
			// the worker died or was killed inside a run: replay that run alone (below)
			for idx, seed := range started {
				fmt.Printf("worker %d died in run idx=%d seed=%d (%v); replaying alone\n", i, idx, seed, r.err)
				died = append(died, diedRun{i, idx, seed, r.log})
			}
			if len(started) == 0 {
				fmt.Printf("worker %d ended without statistics (%v):\n%s\n", i, r.err, r.log)
				broken = true
			}
		}
	}
	// runs that killed (or hung) their worker: replay in parallel, one confirmed violation is enough
	if len(died) > 0 {
		var dmu sync.Mutex
		var dwg sync.WaitGroup
		confirmed, failed := 0, 0
		sem := make(chan struct{}, 8)
		for _, d := range died {
			dwg.Add(1)
			go func(d diedRun) {
				defer dwg.Done()
				sem <- struct{}{}
				defer func() { <-sem }()
				dmu.Lock()
				skip := confirmed > 0
				dmu.Unlock()
				if skip {
					return
				}
				v := replayDied(ck, prop, master, d.idx, d.seed, tier, relaxCSV)
				dmu.Lock()
				defer dmu.Unlock()
				if v == "" {
					failed++
					fmt.Printf("  run idx=%d not reproducible; worker log tail:\n%s\n", d.idx, d.log)
				} else {
					confirmed++
					violations = append(violations, v)
				}
			}(d)
		}
		dwg.Wait()
		if confirmed == 0 && failed > 0 {
			broken = true
		}
	}

	// 4. C11 only: the same programs free-running in a -race build
	if prop == "C11" {
		rv, rbroken := raceMode(master, tier, relaxCSV, total)
		violations = append(violations, rv...)
		if rbroken {
			broken = true
		}
	}

	wall := time.Since(start).Seconds()
	writeEvidence(ck, prop, tier, master, total, wall, len(violations), nKnown, relax)
	sort.Strings(violations)
	for _, v := range violations {
		fmt.Println(v)
	}
	fmt.Printf("check %s: %d runs, %d distinct non-trivial, %.1fs wall, %d violations\n", prop, total.Evals, len(total.Distinct), wall, len(violations))
	if len(violations) > 0 {
		return 1
	}
	if broken {
		return 2
	}
	if total.Evals == 0 {
		fmt.Println("no runs were executed")
		return 2
	}
	return 0
}

// replayDied regenerates the case of a run that killed its worker, saves it and
// replays it twice in fresh processes; a run that kills the process both times
// is a violation ("never crashes the process").
func replayDied(ck *Check, prop string, master, idx, seed uint64, tier, relaxCSV string) string {
	r := rand.New(rand.NewPCG(seed, 0xC0FFEE))
	c := ck.Gen(r, tier, parseRelax(relaxCSV))
	c.Prop, c.Seed, c.Tier = prop, seed, tier
	c.Expect = &Violation{Prop: prop, Oracle: "process-death", Detail: "the run kills or hangs the whole process"}
	p := filepath.Join(workRoot(), "replays", fmt.Sprintf("%s-%d-%d.json", prop, master, idx))
	writeCase(p, c)
	died := 0
	for k := 0; k < 2; k++ {
		res, err := runReplay(p, relaxCSV)
		if err != nil {
			died++
			continue
		}
		if res.V != nil {
			// it fails in an ordinary way when run alone
			c.Expect = res.V
			writeCase(p, c)
			return fmt.Sprintf("VIOLATION property=%s replay=%s", prop, p)
		}
	}
	if died == 2 {
		return fmt.Sprintf("VIOLATION property=%s replay=%s", prop, p)
	}
	return ""
}

func writeEvidence(ck *Check, prop, tier string, master uint64, st *Stats, wall float64, nviol, nknown int, relax []string) {
	cov := map[string]any{
		"evaluations":           st.Evals,
		"distinct_nontrivial":   len(st.Distinct),
		"rule":                  ck.Rule,
		"samples":               st.Samples,
		"runs_per_hour":         int64(float64(st.Evals) / wall * 3600),
		"simulated_time_s":      st.C["sim_time_s"],
		"counters":              st.C,
		"faults_fired":          firedOf(st.C),
		"reach":                 st.SetSizes(),
		"case_seeds":            fmt.Sprintf("case i uses seed mix(VERIF_SEED=%d, i), i in [0,%d); every choice of the case (generation, schedule, crypto randomness) derives from it", master, st.Evals),
		"known_findings_active": nknown,
		"relaxations_active":    relax,
		"real_vs_stub":          "real: pkg/fs, pkg/operations, pkg/recovery, pkg/persisters (SQLite), pkg/tape on tmpfs files, codecs, crypto; instrumented by overlay: sync.Mutex, go statements, os.Stat/Open in pkg/tape; stub/not run: pkg/mtio tape ioctls (DriveIsRegular=false), cmd/stfs",
	}
	if len(st.Samples) == 0 {
		cov["samples"] = []string{"(no sample recorded)"}
	}
	ev := map[string]any{
		"property_id": prop,
		"tier":        tier,
		"seed":        master,
		"level":       ck.Level,
		"coverage":    cov,
		"assumptions": ck.Assumptions,
		"wall_s":      wall,
		"violations":  nviol,
	}
	b, _ := json.MarshalIndent(ev, "", " ")
	os.MkdirAll(filepath.Join(workRoot(), "evidence"), 0o755)
	os.WriteFile(filepath.Join(workRoot(), "evidence", prop+".json"), b, 0o644)
}

// ---------------------------------------------------------------- race mode (C11)

// runFree executes a C11 case with free-running goroutines (no scheduler, real
// clock, real parallelism): what the race detector needs. It records the same
// history as the simulated run (calls stamped with a global event sequence number
// at invocation and return) so that the linearizability oracle can judge what real
// threads produced, too.
func runFree(c *Case) ([]histEntry, error) {
	w, err := NewWorld(c.Cfg, nil)
	if err != nil {
		return nil, err
	}
	defer w.Close()
	stk, err := w.Open(OpenOpts{})
	if stk != nil {
		defer stk.Close()
	}
	if err != nil {
		return nil, err
	}
	var seq atomic.Int64
	var hist []histEntry
	noSleep := func(op Op) Op {
		if op.K == "sleep" { // the real clock is not worth waiting for
			op.O, op.N = 0, 1000
		}
		return op
	}
	shared := &SharedHandles{H: map[int]afero.File{}}
	setup := NewExec(stk.FS, nil)
	setup.Shared = shared // a shared handle opened during the setup stays open for the clients
	for _, op := range c.Ops {
		call := seq.Add(1)
		res := setup.Do(noSleep(op))
		hist = append(hist, histEntry{Client: len(c.Progs) + 1, Op: op, Res: res, Call: call, Ret: seq.Add(1)})
	}
	setup.CloseAll()
	results := make([][]histEntry, len(c.Progs))
	var wg sync.WaitGroup
	for ci, prog := range c.Progs {
		wg.Add(1)
		go func(ci int, prog []Op) {
			defer wg.Done()
			ex := NewExec(stk.FS, nil)
			ex.Shared = shared
			r := rand.New(rand.NewPCG(c.Seed, uint64(ci)))
			do := func(op Op) {
				call := seq.Add(1)
				res := ex.Do(noSleep(op))
				ret := seq.Add(1)
				results[ci] = append(results[ci], histEntry{Client: ci, Op: op, Res: res, Call: call, Ret: ret})
			}
			for _, op := range prog {
				if r.IntN(4) == 0 {
					time.Sleep(time.Duration(r.IntN(200)) * time.Microsecond)
				}
				do(op)
			}
			for h := range ex.H {
				do(Op{K: "h.close", H: h})
			}
		}(ci, prog)
	}
	done := make(chan struct{})
	go func() { wg.Wait(); close(done) }()
	select {
	case <-done:
	case <-time.After(90 * time.Second):
		return nil, fmt.Errorf("timeout")
	}
	for _, r := range results {
		hist = append(hist, r...)
	}
	for h := range shared.H {
		ex := NewExec(stk.FS, nil)
		ex.Shared = shared
		call := seq.Add(1)
		res := ex.Do(Op{K: "h.close", H: h})
		hist = append(hist, histEntry{Client: len(c.Progs) + 2, Op: Op{K: "h.close", H: h}, Res: res, Call: call, Ret: seq.Add(1)})
	}
	call := seq.Add(1)
	tree, probs := Observe(stk.FS, "/", ObsOpts{})
	hist = append(hist, histEntry{Client: len(c.Progs), Op: Op{K: "final-tree"}, Call: call, Ret: seq.Add(1), Final: tree, Probs: probs})
	// the final state is reproducible from the tape (same clause as in the simulated mode)
	x := &SeqCtx{W: w, St: stk, Ex: NewExec(stk.FS, nil), Case: c, Stats: NewStats(), Relax: Relax{"root-name": true}}
	if v := rebuildEquivalence(x, len(hist), nil); v != nil {
		v.Oracle = "final-state-" + v.Oracle
		return hist, &freeViolation{v}
	}
	return hist, nil
}

// freeViolation carries a verdict out of runFree through its error result.
type freeViolation struct{ v *Violation }

func (f *freeViolation) Error() string { return f.v.String() }

// freeVerdict runs the case once free-running and judges the recorded history.
func freeVerdict(c *Case, st *Stats) (*Violation, error) {
	hist, err := runFree(c)
	if fv, ok := err.(*freeViolation); ok {
		fv.v.Prop = "C11"
		fv.v.Oracle += "-real-threads"
		return fv.v, nil
	}
	if err != nil {
		return nil, err
	}
	v := judgeLinearizable("C11", hist, true, st)
	if v != nil {
		v.Oracle = "not-linearizable-real-threads"
	}
	return v, nil
}

func raceMain(t *testing.T) {
	ck := Checks["C11"]
	master := envU64("VERIF_SEED", 1)
	wi, nw := envInt("VERIF_WORKER", 0), envInt("VERIF_NW", 1)
	runs := envInt("VERIF_RUNS", 100)
	deadline := time.Now().Add(time.Duration(envInt("VERIF_BUDGET_S", 20)) * time.Second)
	relax := parseRelax(os.Getenv("VERIF_RELAX"))
	if p := os.Getenv("VERIF_REPLAY"); p != "" {
		c, err := readCase(p)
		if err != nil {
			os.Exit(2)
		}
		for i := 0; i < 20; i++ {
			if v, _ := freeVerdict(c, NewStats()); v != nil {
				b, _ := json.Marshal(v)
				fmt.Println("RACE-LIN-VIOLATION " + string(b))
				os.Exit(67)
			}
		}
		return
	}
	n := 0
	st := NewStats()
	defer func() {
		fmt.Printf("RACE-STATS lin=%d inconclusive=%d\n", st.C["linearizable_histories"], st.C["linearizability_inconclusive"])
	}()
	for idx := uint64(wi); idx < uint64(runs) && time.Now().Before(deadline); idx += uint64(nw) {
		seed := mix(master, idx)
		relax["threads"] = true
		c := ck.Gen(rand.New(rand.NewPCG(seed, 0xC0FFEE)), tierOf(), relax)
		c.Prop, c.Seed = "C11", seed
		fmt.Printf("RACE-START %d %d\n", idx, seed)
		v, err := freeVerdict(c, st)
		if err != nil {
			fmt.Printf("RACE-TIMEOUT %d %v\n", idx, err)
			os.Exit(3)
		}
		if v != nil {
			b, _ := json.Marshal(v)
			fmt.Println("RACE-LIN-VIOLATION " + string(b))
			os.Exit(67)
		}
		n++
	}
	fmt.Printf("RACE-DONE %d\n", n)
}

// raceMode runs the race binary (if it was built) and turns data-race reports
// that name frames of the code under test into violations.
func raceMode(master uint64, tier, relaxCSV string, total *Stats) ([]string, bool) {
	bin := filepath.Join(workRoot(), "build", "sim.race.test")
	if _, err := os.Stat(bin); err != nil {
		fmt.Println("race build not available: race mode skipped")
		total.Add("race_mode_skipped", 1)
		return nil, true
	}
	nw, secs, runs := 4, 30, 400
	if tier == "thorough" {
		secs, runs = 600, 20000
	}
	var mu sync.Mutex
	var violations []string
	broken := false
	var wg sync.WaitGroup
	for i := 0; i < nw; i++ {
		wg.Add(1)
		go func(i int) {
			defer wg.Done()
			cmd := exec.Command(bin, "-test.run", "^TestVerif$", "-test.timeout", "0")
			cmd.Env = append(os.Environ(), "VERIF_MODE=race", fmt.Sprintf("VERIF_WORKER=%d", i), fmt.Sprintf("VERIF_NW=%d", nw), fmt.Sprintf("VERIF_RUNS=%d", runs),
				fmt.Sprintf("VERIF_BUDGET_S=%d", secs), "VERIF_RELAX="+relaxCSV, fmt.Sprintf("VERIF_SEED=%d", master), "VERIF_TIER="+tier, "GOMAXPROCS=4", "GORACE=halt_on_error=1 exitcode=66")
			out, err := cmd.CombinedOutput()
			text := string(out)
			mu.Lock()
			defer mu.Unlock()
			n := strings.Count(text, "RACE-START")
			total.Add("race_mode_runs", int64(n))
			for _, l := range strings.Split(text, "\n") {
				var a, b int64
				if n, _ := fmt.Sscanf(l, "RACE-STATS lin=%d inconclusive=%d", &a, &b); n == 2 {
					total.Add("real_thread_histories_linearizable", a)
					total.Add("real_thread_histories_inconclusive", b)
				}
			}
			if err == nil {
				return
			}
			if i := strings.Index(text, "RACE-LIN-VIOLATION "); i >= 0 && !strings.Contains(text, "WARNING: DATA RACE") {
				var idx, seed uint64
				for _, l := range strings.Split(text[:i], "\n") {
					fmt.Sscanf(l, "RACE-START %d %d", &idx, &seed)
				}
				var v Violation
				line := text[i+len("RACE-LIN-VIOLATION "):]
				if j := strings.Index(line, "\n"); j >= 0 {
					line = line[:j]
				}
				if json.Unmarshal([]byte(line), &v) != nil {
					fmt.Printf("race worker %d: unreadable verdict: %s\n", i, tail(text, 1500))
					broken = true
					return
				}
				ck := Checks["C11"]
				c := ck.Gen(rand.New(rand.NewPCG(seed, 0xC0FFEE)), tier, parseRelax(relaxCSV+",threads"))
				c.Prop, c.Seed, c.Tier = "C11", seed, tier
				c.S["mode"] = "race"
				c.Expect = &v
				p := filepath.Join(workRoot(), "replays", fmt.Sprintf("C11-%d-threads-%d.json", master, idx))
				writeCase(p, c)
				fmt.Printf("violation: %s\n(real threads, run idx=%d seed=%d; the replay re-runs the same client programs free-running, up to 20 times)\n", v.String(), idx, seed)
				violations = append(violations, fmt.Sprintf("VIOLATION property=C11 replay=%s", p))
				return
			}
			if !strings.Contains(text, "WARNING: DATA RACE") {
				fmt.Printf("race worker %d ended abnormally (%v): %s\n", i, err, tail(text, 1500))
				broken = true
				return
			}
			report := text[strings.Index(text, "WARNING: DATA RACE"):]
			if !strings.Contains(report, "github.com/pojntfx/stfs/") {
				fmt.Printf("data race outside the code under test (harness?):\n%s\n", tail(report, 3000))
				broken = true
				return
			}
			// which run?
			var idx, seed uint64
			lines := strings.Split(text[:strings.Index(text, "WARNING: DATA RACE")], "\n")
			for _, l := range lines {
				fmt.Sscanf(l, "RACE-START %d %d", &idx, &seed)
			}
			ck := Checks["C11"]
			c := ck.Gen(rand.New(rand.NewPCG(seed, 0xC0FFEE)), tier, parseRelax(relaxCSV+",threads"))
			c.Prop, c.Seed, c.Tier = "C11", seed, tier
			c.S["mode"] = "race"
			c.Expect = &Violation{Prop: "C11", Oracle: "data-race", Detail: tail(report, 2500)}
			p := filepath.Join(workRoot(), "replays", fmt.Sprintf("C11-%d-race-%d.json", master, idx))
			writeCase(p, c)
			fmt.Printf("data race in run idx=%d seed=%d:\n%s\n", idx, seed, tail(report, 2500))
			violations = append(violations, fmt.Sprintf("VIOLATION property=C11 replay=%s", p))
		}(i)
	}
	wg.Wait()
	return violations, broken
}

func tail(s string, n int) string {
	if len(s) > n {
		return s[len(s)-n:]
	}
	return s
}

func firedOf(c map[string]int64) map[string]int64 {
	out := map[string]int64{}
	for k, v := range c {
		if strings.HasPrefix(k, "fired_") {
			out[k[len("fired_"):]] = v
		}
	}
	return out
}
