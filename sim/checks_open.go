package sim

import (
	"bytes"
	"fmt"
	"math/rand/v2"
	"os"
	"path/filepath"
	"sort"
	"strings"
	"testing"
	"time"

	"github.com/pojntfx/stfs/pkg/cache"
	"github.com/spf13/afero"
)

type openCombo struct {
	Cut int // -1 intact, else prefix length
	Idx int // -2 absent, -1 current, >=0: snapshot taken at call boundary Idx (stale)
}

func init() {
	Register(&Check{
		ID: "C16", Level: "fault_enumeration", Tech: "deterministic simulation: restart enumeration over (crash point of the tape) x (index absent / current / stale snapshot), then Initialize, further calls and a rebuild",
		Rule:      "per generated history: tape = intact or cut at enumerated crash points (call boundaries, record boundaries, inside headers, inside content); index = absent, current, or the snapshot taken at any earlier call boundary; a fresh instance is constructed and initialised over copies; oracle: the old tape is a prefix of the tape afterwards, nothing is appended when the tape holds a complete root record, on success the observed tree+contents equal a from-scratch rebuild of that tape, and entries written afterwards read back and survive a rebuild; in a quarter of the histories the documented cache composition (memory / dir with a cache directory that outlives the instance) is opened, the tape is changed by an uncached instance, and a new cached instance must show the rebuilt state; an evaluation = one (history, cut, index) combination; non-trivial = cut inside the tape or stale index; distinct by (history, cut class, index class)",
		QuickRuns: 500, QuickSecs: 70, ThoroughRuns: 1500, ThoroughSecs: 1500,
		Assumptions: []string{"index snapshots are file copies taken at call boundaries (SQLite's own crash recovery is not modelled)", "an index that is ahead of the tape is not modelled", "open known finding KF4 restricts what is judged for writes after opening a tape with a torn tail (see DESIGN.md)"},
		Gen: func(r *rand.Rand, tier string, relax Relax) *Case {
			c := &Case{Cfg: GenConfig(r, 0.6), P: map[string]int64{"enumerate": 1}, S: map[string]string{}}
			ops, u := GenHistory(r, GenOpts{MaxOps: 7, Handles: r.Float64() < 0.3, RS: c.Cfg.RecordSize, ValidBias: 0.85})
			c.Ops, c.S["style"] = ops, u.Style
			if r.IntN(4) == 0 {
				c.S["fscache"] = []string{"dir", "memory"}[r.IntN(2)]
			}
			return c
		},
		Eval: evalC16,
	})
}

func evalC16(t *testing.T, c *Case, st *Stats, relax Relax) *Violation {
	return RunSeq(t, c, st, relax, seqOpts{}, func(x *SeqCtx) *Violation {
		// run the history, snapshotting the index at every call boundary
		var snaps []string
		snap := func() {
			p := x.W.NewIndexPath()
			copyFile(x.W.Index, p)
			snaps = append(snaps, p)
		}
		snap()
		var ends []int
		sz := func() int { fi, _ := os.Stat(x.W.Drive); return int(fi.Size()) }
		ends = append(ends, sz())
		if v := runOps(x, func(i int, op Op, res Res) *Violation {
			if len(x.Ex.H) == 0 {
				snap()
				ends = append(ends, sz())
			}
			return nil
		}); v != nil {
			return v
		}
		x.Ex.CloseAll()
		snap()
		ends = append(ends, sz())
		tape, _ := os.ReadFile(x.W.Drive)
		recs, err := ScanTape(tape)
		if err != nil {
			return &Violation{Prop: c.Prop, Oracle: "tape-not-tar", Detail: err.Error()}
		}
		names := namesOf(c.Ops)
		var combos []openCombo
		if c.Param("enumerate", 1) == 0 {
			combos = []openCombo{{Cut: int(c.Param("cut", -1)), Idx: int(c.Param("idx", -2))}}
		} else {
			combos = append(combos, openCombo{-1, -2}, openCombo{-1, -1})
			for j := 0; j < len(snaps)-1; j++ {
				if ends[j] != len(tape) {
					combos = append(combos, openCombo{-1, j})
				}
			}
			rr := rand.New(rand.NewPCG(c.Seed, 16))
			cutSet := map[int]bool{}
			for _, e := range ends {
				cutSet[e] = true
			}
			for _, r := range recs {
				cutSet[int(r.Off)] = true
				cutSet[int(r.DataOff)] = true
				cutSet[int(r.Off)+100] = true
				if r.Size > 2 {
					cutSet[int(r.DataOff+r.Size/2)] = true
				}
				cutSet[int(r.DataOff+roundUp512(r.Size))] = true
			}
			var cuts []int
			for k := range cutSet {
				if k > 0 && k < len(tape) {
					cuts = append(cuts, k)
				}
			}
			sort.Ints(cuts)
			rr.Shuffle(len(cuts), func(i, j int) { cuts[i], cuts[j] = cuts[j], cuts[i] })
			n := 14
			if c.Tier == "thorough" {
				n = 80
			}
			if len(cuts) > n {
				cuts = cuts[:n]
			}
			for _, L := range cuts {
				combos = append(combos, openCombo{L, -2})
				// a stale or matching index for a cut tape: snapshot of the last boundary not after the cut
				best := -1
				for j, e := range ends {
					if e <= L {
						best = j
					}
				}
				if best >= 0 && rr.Float64() < 0.5 {
					combos = append(combos, openCombo{L, best})
				}
			}
		}
		for _, cb := range combos {
			if v := c16One(x, cb, tape, recs, ends, snaps, names); v != nil {
				c.P["enumerate"], c.P["cut"], c.P["idx"] = 0, int64(cb.Cut), int64(cb.Idx)
				return v
			}
			st.Evals++
		}
		if ct := c.S["fscache"]; ct != "" && c.Param("enumerate", 1) != 0 {
			if v := c16FsCache(x, ct, tape, snaps[len(snaps)-1], names); v != nil {
				return v
			}
		}
		st.Evals--
		st.Sample(fmt.Sprintf("cfg=%s tape=%dB combos=%d ops:\n%s", c.Cfg, len(tape), len(combos), opsString(c.Ops)))
		return nil
	})
}

// c16FsCache: the documented composition with a filesystem cache ("memory" or "dir" with a cache
// directory that outlives the instance). Session 1 reads everything through the cache, session 2
// (no cache, e.g. the CLI) changes the tape, session 3 is constructed with the same cache type and
// directory: it must show what a from-scratch rebuild of the tape shows (kinds, sizes, contents).
func c16FsCache(x *SeqCtx, ctype string, tape []byte, index string, names []string) *Violation {
	c := x.Case
	mk := func(oracle, detail string) *Violation {
		return &Violation{Prop: c.Prop, Oracle: oracle, Detail: fmt.Sprintf("filesystem cache %q over the intact tape with its current index: %s", ctype, detail)}
	}
	drive, err := x.W.PrefixDrive(tape, len(tape))
	if err != nil {
		return &Violation{Prop: c.Prop, Oracle: "harness", Detail: err.Error()}
	}
	defer os.Remove(drive)
	idx := x.W.NewIndexPath()
	copyFile(index, idx)
	cacheDir := filepath.Join(x.W.Dir, "fscache")
	session := func(cached bool, body func(fsys afero.Fs, st *Stack) *Violation) *Violation {
		st, err := x.W.Open(OpenOpts{Drive: drive, Index: idx})
		if st != nil {
			defer st.Close()
		}
		if err != nil {
			return mk("open-fails", err.Error())
		}
		var fsys afero.Fs = st.FS
		if cached {
			fsys, err = cache.NewCacheFilesystem(st.FS, st.Root, ctype, time.Hour, cacheDir)
			if err != nil {
				return mk("composition-fails", err.Error())
			}
		}
		return body(fsys, st)
	}
	var first Tree
	if v := session(true, func(fsys afero.Fs, st *Stack) *Violation {
		first, _ = Observe(fsys, "/", ObsOpts{Extra: names})
		return nil
	}); v != nil {
		return v
	}
	// another instance without the cache rewrites one file, removes one entry and adds one
	if v := session(false, func(fsys afero.Fs, st *Stack) *Violation {
		ex := NewExec(fsys, x.S)
		var files []string
		for p, n := range first {
			if n.Kind == "file" {
				files = append(files, p)
			}
		}
		sort.Strings(files)
		if len(files) > 0 {
			ex.Do(Op{K: "writefile", P: files[0], D: &Data{Len: int(first[files[0]].Size) + 37, Kind: "text", Tag: 0xCAC4E}})
		}
		if len(files) > 1 {
			ex.Do(Op{K: "remove", P: files[1]})
		}
		ex.Do(Op{K: "writefile", P: "/c16-other-session", D: &Data{Len: 99, Kind: "text", Tag: 0xCAC4F}})
		return nil
	}); v != nil {
		return v
	}
	var third Tree
	if v := session(true, func(fsys afero.Fs, st *Stack) *Violation {
		third, _ = Observe(fsys, "/", ObsOpts{Extra: names})
		return nil
	}); v != nil {
		return v
	}
	scratch, _, ierr, err := RebuildObserve(x.W, drive, names)
	if err != nil {
		return &Violation{Prop: c.Prop, Oracle: "harness", Detail: err.Error()}
	}
	if ierr != nil {
		return mk("rebuild-fails", ierr.Error())
	}
	x.Stats.Add("fscache_sessions", 3)
	var diffs []string
	for p, n := range scratch {
		g, ok := third[p]
		if !ok {
			diffs = append(diffs, fmt.Sprintf("%s: on the tape (%s %d bytes), not shown", p, n.Kind, n.Size))
		} else if g.Kind != n.Kind || (n.Kind == "file" && (g.Size != n.Size || g.Sum != n.Sum)) {
			diffs = append(diffs, fmt.Sprintf("%s: tape has %s %d bytes %s, shown is %s %d bytes %s %s", p, n.Kind, n.Size, n.Sum, g.Kind, g.Size, g.Sum, g.Err))
		}
	}
	for p, g := range third {
		if _, ok := scratch[p]; !ok {
			diffs = append(diffs, fmt.Sprintf("%s: shown (%s %d bytes) but not on the tape any more", p, g.Kind, g.Size))
		}
	}
	sort.Strings(diffs)
	if len(diffs) > 0 {
		return mk("opened-with-cache-differs-from-scratch-rebuild", strings.Join(diffs, "; "))
	}
	return nil
}

func c16One(x *SeqCtx, cb openCombo, tape []byte, recs []TapeRec, ends []int, snaps []string, names []string) *Violation {
	c := x.Case
	L := len(tape)
	if cb.Cut >= 0 {
		L = cb.Cut
	}
	before := tape[:L]
	// classify the tape state
	complete, aligned := true, L%512 == 0
	inContent := false
	rootComplete := len(recs) > 0 && recs[0].DataOff <= int64(L)
	for _, r := range recs {
		if r.Off < int64(L) && r.DataOff+r.Size > int64(L) {
			complete = false
			if int64(L) >= r.DataOff {
				inContent = true
			}
		}
		if r.Off < int64(L) && r.DataOff > int64(L) {
			complete = false
		}
	}
	// index state
	idxPath := x.W.NewIndexPath()
	idxClass := "absent"
	stale := false
	switch {
	case cb.Idx == -1:
		copyFile(snaps[len(snaps)-1], idxPath)
		idxClass = "current"
		if cb.Cut >= 0 && cb.Cut != len(tape) {
			return nil // "current" is only meaningful for the intact tape
		}
	case cb.Idx >= 0:
		copyFile(snaps[cb.Idx], idxPath)
		idxClass = "stale"
		stale = ends[cb.Idx] < L
		if ends[cb.Idx] > L {
			return nil // index ahead of the tape: not modelled
		}
		if !stale {
			idxClass = "matching"
		}
	}
	drive, err := x.W.PrefixDrive(tape, L)
	if err != nil {
		return &Violation{Prop: c.Prop, Oracle: "harness", Detail: err.Error()}
	}
	defer os.Remove(drive)
	where := fmt.Sprintf("tape %d/%d bytes (complete=%v aligned=%v tornInContent=%v), index %s", L, len(tape), complete, aligned, inContent, idxClass)
	mk := func(oracle, detail string) *Violation {
		return &Violation{Prop: c.Prop, Oracle: oracle, Step: L, Detail: where + ": " + detail}
	}
	cls := "intact"
	if cb.Cut >= 0 && cb.Cut < len(tape) {
		cls = "cut-complete"
		if !complete {
			cls = "cut-in-header"
			if inContent {
				cls = "cut-in-content"
			}
		}
	}
	x.Stats.Add("combo_"+cls+"_"+idxClass, 1)
	if cls != "intact" || stale {
		x.Stats.Nontrivial(fmt.Sprintf("%s|%s|%s|%s", opKinds(c.Ops), c.Cfg, cls, idxClass))
	}
	st, oerr := x.W.Open(OpenOpts{Drive: drive, Index: idxPath})
	if st != nil {
		defer st.Close()
	}
	after, _ := os.ReadFile(drive)
	// (1) never removes or rewrites tape content
	if !bytes.HasPrefix(after, before) {
		return mk("open-rewrites-tape", fmt.Sprintf("the tape before opening is not a prefix of the tape afterwards (%d -> %d bytes)", len(before), len(after)))
	}
	// (2) appends nothing when a root already exists on the tape
	if rootComplete && len(after) != len(before) {
		if inContent && x.Relax["torn-content-open"] {
			x.Stats.Add("masked_by_KF2", 1)
			return nil
		}
		return mk("open-appends-although-root-exists", fmt.Sprintf("Initialize appended %d bytes to a tape that already holds a root record", len(after)-len(before)))
	}
	if oerr != nil {
		x.Stats.Add("open_returned_error", 1)
		return nil // an error is an allowed outcome; nothing was destroyed
	}
	// (3) faithful: shows what a from-scratch rebuild of that tape shows
	if stale && x.Relax["stale-index-open"] {
		x.Stats.Add("masked_by_KF3", 1)
		return nil
	}
	live, lp := Observe(st.FS, "/", ObsOpts{Extra: names})
	scratch, sp, ierr, err := RebuildObserve(x.W, drive, names)
	if err != nil {
		return &Violation{Prop: c.Prop, Oracle: "harness", Detail: err.Error()}
	}
	_ = ierr
	if d := DiffTrees("opened", "scratch-rebuild", live, scratch, nil); len(d) > 0 {
		return mk("opened-differs-from-scratch-rebuild", strings.Join(d, "; "))
	}
	if len(lp) != len(sp) {
		return mk("walk-problems", fmt.Sprintf("opened=%v scratch=%v", lp, sp))
	}
	// (4) entries written afterwards are retrievable and survive a rebuild
	if (!aligned || !complete) && x.Relax["torn-tail-append"] {
		x.Stats.Add("masked_by_KF4", 1)
		return nil
	}
	ex := NewExec(st.FS, x.S)
	data := &Data{Len: 700, Kind: "text", Tag: 0xC16}
	r1 := ex.Do(Op{K: "writefile", P: "/c16-new-file", D: data})
	r2 := ex.Do(Op{K: "mkdir", P: "/c16-new-dir", M: 0o755})
	if r1.Class != "ok" || r2.Class != "ok" {
		return mk("write-after-open-fails", fmt.Sprintf("writefile: %s %s, mkdir: %s %s", r1.Class, r1.Err, r2.Class, r2.Err))
	}
	rd := ex.Do(Op{K: "readfile", P: "/c16-new-file"})
	if rd.Class != "ok" || !bytes.Equal(rd.Data, data.Bytes()) {
		return mk("entry-written-after-open-not-retrievable", fmt.Sprintf("read back: %s %s %s", rd.Class, rd.Err, rd.Sum))
	}
	// further calls on what was already on the tape: rename one pre-existing entry (a directory
	// takes its subtree along) and the file just written; both must be reachable under their new names
	var olds []string
	for p, n := range live {
		if p != "/" && n.Err == "" && strings.Count(p, "/") == 1 && !strings.HasPrefix(p, "/c16-") {
			olds = append(olds, p)
		}
	}
	sort.Strings(olds)
	if len(olds) > 0 {
		old := olds[int(c.Seed%uint64(len(olds)))]
		if r := ex.Do(Op{K: "rename", P: old, Q: "/c16-renamed-old"}); r.Class != "ok" {
			return mk("write-after-open-fails", fmt.Sprintf("rename %q: %s %s", old, r.Class, r.Err))
		}
		if r := ex.Do(Op{K: "stat", P: "/c16-renamed-old"}); r.Class != "ok" || r.Info.Kind != live[old].Kind {
			return mk("entry-written-after-open-not-retrievable", fmt.Sprintf("%q renamed to /c16-renamed-old: stat %s %s %+v", old, r.Class, r.Err, r.Info))
		}
		if r := ex.Do(Op{K: "stat", P: old}); r.Class == "ok" {
			return mk("entry-written-after-open-not-retrievable", fmt.Sprintf("%q still exists after it was renamed", old))
		}
	}
	if r := ex.Do(Op{K: "rename", P: "/c16-new-file", Q: "/c16-new-dir/moved"}); r.Class != "ok" {
		return mk("write-after-open-fails", fmt.Sprintf("rename of the new file: %s %s", r.Class, r.Err))
	}
	if rd := ex.Do(Op{K: "readfile", P: "/c16-new-dir/moved"}); rd.Class != "ok" || !bytes.Equal(rd.Data, data.Bytes()) {
		return mk("entry-written-after-open-not-retrievable", fmt.Sprintf("renamed new file reads back: %s %s %s", rd.Class, rd.Err, rd.Sum))
	}
	live2, _ := Observe(st.FS, "/", ObsOpts{Extra: names})
	scratch2, _, ierr2, err := RebuildObserve(x.W, drive, names)
	if err != nil {
		return &Violation{Prop: c.Prop, Oracle: "harness", Detail: err.Error()}
	}
	if ierr2 != nil {
		return mk("rebuild-after-writes-fails", ierr2.Error())
	}
	if d := DiffTrees("live-after-writes", "rebuild-after-writes", live2, scratch2, nil); len(d) > 0 {
		return mk("entries-written-after-open-do-not-survive-rebuild", strings.Join(d, "; "))
	}
	if _, ok := scratch2["/c16-new-dir/moved"]; !ok {
		return mk("entries-written-after-open-do-not-survive-rebuild", "/c16-new-dir/moved missing after rebuild")
	}
	return nil
}
