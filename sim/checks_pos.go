package sim

import (
	"archive/tar"
	"bytes"
	"context"
	"fmt"
	"io"
	"io/fs"
	"math/rand/v2"
	"os"
	"path"
	"strings"
	"testing"
	"time"

	"github.com/pojntfx/stfs/pkg/config"
	"github.com/pojntfx/stfs/pkg/recovery"
)

type rsc struct{ *bytes.Reader }

func (rsc) Close() error { return nil }

// doArchive performs one batched Operations.Archive call with the members
// P/m0..m{N-1}; contents derive from D (tag+i, varying lengths).
func archiveMembers(op Op) []Op {
	var out []Op
	if op.W == 1 {
		// size sweep: op.N members of consecutive sizes op.O, op.O+1, ... with highly compressible
		// content (a unique marker followed by padding)
		for i := 0; i < op.N; i++ {
			d := Data{Len: int(op.O) + i, Kind: "pad", Tag: op.D.Tag + uint32(i)}
			out = append(out, Op{K: "writefile", P: path.Join(op.P, fmt.Sprintf("s%d", i)), D: &d})
		}
		return out
	}
	for i := 0; i < op.N; i++ {
		d := *op.D
		d.Tag += uint32(i)
		d.Len = (op.D.Len*(i+1) + i*301) % 5000
		if i%4 == 3 {
			d.Len = 0
		}
		dd := d
		out = append(out, Op{K: "writefile", P: path.Join(op.P, fmt.Sprintf("m%d", i)), D: &dd})
	}
	return out
}

func doArchive(st *Stack, op Op) Res {
	members := archiveMembers(op)
	i := 0
	_, err := st.Write.Archive(func() (config.FileConfig, error) {
		if i >= len(members) {
			return config.FileConfig{}, io.EOF
		}
		m := members[i]
		i++
		b := m.D.Bytes()
		size := int64(len(b))
		if op.Q == "stale" {
			// the FileInfo was taken earlier than the file is opened (as `stfs operation archive` does:
			// filepath.Walk first, os.Open later) and the file changed in between: it grew, it shrank,
			// it was empty and has content now, it had content and is empty now
			switch k := i - 1; k % 4 {
			case 0:
				size += 1 + int64(k*37%200)
			case 1:
				size = max(1, size-1-int64(k))
			case 2:
				size = 0
			case 3:
				size, b = max(1, size), nil
			}
		}
		hdr := &tar.Header{Typeflag: tar.TypeReg, Name: m.P, Size: size, Mode: 0o644, ModTime: time.Now()}
		return config.FileConfig{
			GetFile: func() (io.ReadSeekCloser, error) { return rsc{bytes.NewReader(b)}, nil },
			Info:    hdr.FileInfo(),
			Path:    m.P,
		}, nil
	}, st.Cfg.Level, false, false)
	return mkRes(err)
}

type rawRow struct {
	Name, Link                 string
	Type, Deleted              int64
	Rec, Blk, LRec, LBlk, Size int64
}

func rawRows(st *Stack) ([]rawRow, error) {
	db := st.MP.VerifDB()
	rows, err := db.Query(`select name, linkname, typeflag, deleted, record, block, lastknownrecord, lastknownblock, size from headers order by name, linkname`)
	if err != nil {
		return nil, err
	}
	defer rows.Close()
	var out []rawRow
	for rows.Next() {
		var r rawRow
		if err := rows.Scan(&r.Name, &r.Link, &r.Type, &r.Deleted, &r.Rec, &r.Blk, &r.LRec, &r.LBlk, &r.Size); err != nil {
			return nil, err
		}
		out = append(out, r)
	}
	return out, nil
}

type sink struct{ bytes.Buffer }

func (s *sink) Close() error { return nil }

// fetchAt restores the record at (record, block) with recovery.Fetch.
func fetchAt(st *Stack, rec, blk int64) ([]byte, error) {
	reader, err := st.Backend.GetReader()
	if err != nil {
		return nil, err
	}
	defer st.Backend.CloseReader()
	out := &sink{}
	err = recovery.Fetch(reader, st.Backend.MagneticTapeIO, st.Read.GetPipes(), st.Read.GetCrypto(),
		func(p string, m fs.FileMode) (io.WriteCloser, error) { return out, nil },
		func(p string, m fs.FileMode) error { return nil },
		int(rec), int(blk), "x", false, nil)
	return out.Bytes(), err
}

// positionInvariants is the C04 oracle, evaluated against the raw tape, the raw
// index rows and the model's contents.
func positionInvariants(x *SeqCtx, step int, ref *RefFS, aliases map[string]map[string]bool) *Violation {
	prop := x.Case.Prop
	cfg := x.Case.Cfg
	rs := int64(cfg.RecordSize)
	tape, err := os.ReadFile(x.W.Drive)
	if err != nil {
		return &Violation{Prop: prop, Oracle: "harness", Detail: err.Error()}
	}
	recs, err := ScanTape(tape)
	if err != nil {
		return &Violation{Prop: prop, Oracle: "tape-not-tar", Step: step, Detail: err.Error()}
	}
	offs := map[int64]*TapeRec{}
	for i := range recs {
		offs[recs[i].Off] = &recs[i]
	}
	hs, err := QueryTape(x.St)
	if err != nil {
		return &Violation{Prop: prop, Oracle: "query-fails", Step: step, Detail: err.Error()}
	}
	if len(hs) != len(recs) {
		return &Violation{Prop: prop, Oracle: "query-record-count", Step: step, Detail: fmt.Sprintf("recovery.Query lists %d records, the independent scan %d", len(hs), len(recs))}
	}
	qname := map[int64]*config.Header{}
	for i, h := range hs {
		off := (h.Record*rs + h.Block) * 512
		if off != recs[i].Off {
			return &Violation{Prop: prop, Oracle: "query-position", Step: step, Detail: fmt.Sprintf("recovery.Query reports record %d at (%d,%d) = byte %d, the scan finds it at byte %d", i, h.Record, h.Block, off, recs[i].Off)}
		}
		if h.Block >= rs {
			return &Violation{Prop: prop, Oracle: "block-not-below-record-size", Step: step, Detail: fmt.Sprintf("Query position (%d,%d) with record size %d", h.Record, h.Block, rs)}
		}
		qname[off] = h
	}
	rows, err := rawRows(x.St)
	if err != nil {
		return &Violation{Prop: prop, Oracle: "harness", Detail: err.Error()}
	}
	_, files := ref.Paths()
	isFile := map[string]bool{}
	for _, f := range files {
		isFile[f] = true
	}
	rt, mask := ref.Tree()
	maxLast := int64(-1)
	for _, r := range rows {
		pos, last := r.Rec*rs+r.Blk, r.LRec*rs+r.LBlk
		if last > maxLast {
			maxLast = last
		}
		if r.Deleted == 1 {
			continue
		}
		if r.Blk >= rs || r.LBlk >= rs || r.Blk < 0 || r.LBlk < 0 {
			return &Violation{Prop: prop, Oracle: "block-not-below-record-size", Step: step, Detail: fmt.Sprintf("%q: position (%d,%d) last (%d,%d) record size %d", r.Name, r.Rec, r.Blk, r.LRec, r.LBlk, rs)}
		}
		if last < pos {
			return &Violation{Prop: prop, Oracle: "last-known-before-content", Step: step, Detail: fmt.Sprintf("%q: content position %d, last known %d", r.Name, pos, last)}
		}
		tr, ok := offs[pos*512]
		if !ok {
			return &Violation{Prop: prop, Oracle: "position-not-a-record-start", Step: step, Detail: fmt.Sprintf("%q: (%d,%d) = byte %d is not the start of a record on the tape", r.Name, r.Rec, r.Blk, pos*512)}
		}
		if _, ok := offs[last*512]; !ok {
			return &Violation{Prop: prop, Oracle: "last-known-not-a-record-start", Step: step, Detail: fmt.Sprintf("%q: last known (%d,%d) is not the start of a record", r.Name, r.LRec, r.LBlk)}
		}
		p := cleanAbs(r.Name)
		if r.Link != "" {
			continue
		}
		// the designated record carries (one of) the entry's names
		h := qname[pos*512]
		rn := cleanAbs(stripSuffix(h.Name, cfg))
		if rn != p && !aliases[p][rn] {
			return &Violation{Prop: prop, Oracle: "position-designates-other-entry", Step: step, Detail: fmt.Sprintf("%q points at byte %d where a record of %q is stored", p, pos*512, rn)}
		}
		if isFile[p] && !mask[p].Content {
			want := rt[p]
			got, err := fetchAt(x.St, r.Rec, r.Blk)
			if err != nil {
				return &Violation{Prop: prop, Oracle: "fetch-at-position-fails", Step: step, Detail: fmt.Sprintf("%q at (%d,%d): %v", p, r.Rec, r.Blk, err)}
			}
			if sumOf(got) != want.Sum {
				return &Violation{Prop: prop, Oracle: "fetch-at-position-wrong-content", Step: step, Detail: fmt.Sprintf("%q at (%d,%d): fetched %s, current content is %s", p, r.Rec, r.Blk, sumOf(got), want.Sum)}
			}
			_ = tr
			x.Stats.Add("fetches_checked", 1)
		}
	}
	// the index's "last written" position is the last record on the tape
	lr, lb, err := x.St.MP.GetLastIndexedRecordAndBlock(context.Background(), cfg.RecordSize)
	if err != nil {
		return &Violation{Prop: prop, Oracle: "harness", Detail: err.Error()}
	}
	if len(recs) > 0 {
		if want := recs[len(recs)-1].Off; (lr*rs+lb)*512 != want {
			return &Violation{Prop: prop, Oracle: "last-indexed-position", Step: step, Detail: fmt.Sprintf("index reports (%d,%d) = byte %d as last written, the last record on the tape starts at byte %d", lr, lb, (lr*rs+lb)*512, want)}
		}
	}
	// records spanning a record boundary / starting at every block offset: reach probes
	for _, r := range recs {
		b := r.Off / 512
		if (b%rs)+((r.DataOff-r.Off+roundUp512(r.Size))/512) > rs {
			x.Stats.Add("probe_record_spans_boundary", 1)
		}
		if b%rs == rs-1 {
			x.Stats.Add("probe_record_starts_at_last_block", 1)
		}
	}
	return nil
}

func updateAliases(aliases map[string]map[string]bool, pre Tree, from, to string) {
	from, to = cleanAbs(from), cleanAbs(to)
	if from == to {
		return
	}
	for p := range pre {
		if _, ok := aliases[p]; !ok {
			aliases[p] = map[string]bool{}
		}
	}
	moved := map[string]map[string]bool{}
	for p, set := range aliases {
		if p == from || strings.HasPrefix(p, from+"/") {
			np := to + p[len(from):]
			ns := map[string]bool{p: true}
			for k := range set {
				ns[k] = true
			}
			moved[np] = ns
			delete(aliases, p)
		}
	}
	for k, v := range moved {
		aliases[k] = v
	}
}

func init() {
	Register(&Check{
		ID: "C04", Level: "exploration", Tech: "deterministic simulation: invariant monitor over raw index rows x independent tape scan x recovery.Query x recovery.Fetch, contents from the reference model",
		Rule:      "seeded histories biased to batched Operations.Archive calls with k=1..6 members, content and metadata updates, moves, deletes, small record sizes and content lengths that make records start at every block offset and span record boundaries; after every call: every live row's (record,block) is the start of a scanned record that carries one of the entry's names, block < record size, last-known >= content position and is a record start, recovery.Fetch there returns the model's current content, recovery.Query positions equal the scan's, the index's last-written position is the last record; non-trivial = at least 3 records with content on the tape; distinct by (op kinds, record size, config)",
		QuickRuns: 5000, QuickSecs: 60, ThoroughRuns: 50000, ThoroughSecs: 1500,
		Assumptions: []string{"contents expected at a position come from RefFS (KF1 name exclusion applies)", "regular-file drive"},
		Gen: func(r *rand.Rand, tier string, relax Relax) *Case {
			c := &Case{Cfg: GenConfig(r, 0.6), P: map[string]int64{}, S: map[string]string{}}
			if r.Float64() < 0.6 {
				c.Cfg.RecordSize = []int{1, 2, 3, 7}[r.IntN(4)]
			}
			o := GenOpts{MaxOps: 12, Handles: r.Float64() < 0.4, RS: c.Cfg.RecordSize, ValidBias: 0.85}
			if relax["suffixnames"] {
				o.AvoidSuffixes = activeSuffixes(c.Cfg)
			}
			ops, u := GenHistory(r, o)
			// sprinkle batched archive calls
			var out []Op
			tag := uint32(5000)
			dirs := []string{"/"}
			streams := 0
			for _, op := range ops {
				out = append(out, op)
				if op.K == "mkdir" {
					dirs = append(dirs, op.P)
				}
				switch op.K {
				case "open":
					streams++
				case "h.close":
					if streams > 0 {
						streams--
					}
				}
				// (KF6: no write call while a positioned read stream of the history is open)
				if streams == 0 && r.Float64() < 0.25 {
					tag += 10
					out = append(out, Op{K: "archive", P: dirs[r.IntN(len(dirs))], N: []int{0, 1, 1, 2, 3, 4, 5, 6}[r.IntN(8)], D: &Data{Len: 1 + r.IntN(2000), Kind: []string{"text", "rand"}[r.IntN(2)], Tag: tag}}) // N=0: an empty batch appends nothing at all
				}
			}
			c.Ops, c.S["style"] = out, u.Style
			return c
		},
		Eval: func(t *testing.T, c *Case, st *Stats, relax Relax) *Violation {
			return RunSeq(t, c, st, relax, seqOpts{}, func(x *SeqCtx) *Violation {
				ref := NewRefFS(func() int64 { return time.Now().UnixNano() }, 0o777)
				aliases := map[string]map[string]bool{}
				content := 0
				for i, op := range c.Ops {
					var res Res
					if op.K == "archive" {
						// only meaningful if the target directory exists and the members are new
						if ref.Kind(op.P) != "dir" {
							continue
						}
						clash := false
						for _, m := range archiveMembers(op) {
							if ref.Kind(m.P) != "" {
								clash = true
							}
						}
						if clash {
							continue
						}
						res = doArchive(x.St, op)
						if res.Class != "ok" {
							return &Violation{Prop: c.Prop, Oracle: "archive-fails", Step: i, Detail: fmt.Sprintf("%s: %s", op, res.Err)}
						}
						for _, m := range archiveMembers(op) {
							ref.Apply(m)
							ref.Apply(Op{K: "chmod", P: m.P, M: 0o644})
							if m.D.Len > 0 {
								content++
							}
						}
						x.Stats.Add("batched_archive_calls", 1)
						x.Stats.Add("batched_archive_members", int64(op.N))
					} else {
						res = x.Ex.Do(op)
						var pre Tree
						if op.K == "rename" {
							pre, _ = ref.Tree()
						}
						exp := ref.Apply(op)
						if (exp.Class == "ok") != (res.Class == "ok") && exp.Class != "any" && exp.Class != "nohandle" && res.Class != "nohandle" {
							// C02's business; positions cannot be judged once model and implementation diverge
							x.Stats.Add("histories_abandoned_model_divergence", 1)
							return nil
						}
						if op.K == "rename" && res.Class == "ok" {
							// a replaced target's names are not names of the moved entry
							q := cleanAbs(op.Q)
							for k := range aliases {
								if q != cleanAbs(op.P) && (k == q || strings.HasPrefix(k, q+"/")) {
									delete(aliases, k)
								}
							}
							updateAliases(aliases, pre, op.P, op.Q)
						}
						if op.K == "writefile" && res.Class == "ok" {
							if _, ok := aliases[cleanAbs(op.P)]; !ok {
								aliases[cleanAbs(op.P)] = map[string]bool{}
							}
							if op.D.Len > 0 {
								content++
							}
						}
						if (op.K == "remove" || op.K == "removeall") && res.Class == "ok" {
							p := cleanAbs(op.P)
							for k := range aliases {
								if k == p || strings.HasPrefix(k, p+"/") {
									delete(aliases, k)
								}
							}
						}
					}
					if len(x.Ex.H) > 0 {
						continue
					}
					if v := positionInvariants(x, i, ref, aliases); v != nil {
						return v
					}
					x.Stats.Add("oracle_evaluations", 1)
				}
				if content >= 3 {
					st.Nontrivial(fmt.Sprintf("%s|%s", opKinds(c.Ops), c.Cfg))
					st.Sample(fmt.Sprintf("cfg=%s ops:\n%s", c.Cfg, opsString(c.Ops)))
				}
				return nil
			})
		},
	})
}
