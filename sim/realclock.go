package sim

import (
	"time"
	_ "unsafe"
)

// The bubble fakes time.Now for every goroutine inside it. The heartbeat needs
// real elapsed time even when called from inside a bubble: runtime.nanotime is
// not faked.
//
//go:linkname nanotime runtime.nanotime
func nanotime() int64

func realNow() time.Time { return time.Unix(0, nanotime()) }

func realSince(t time.Time) time.Duration { return time.Duration(nanotime() - t.UnixNano()) }
