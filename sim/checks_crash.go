package sim

import (
	"bytes"
	"fmt"
	"math/rand/v2"
	"os"
	"sort"
	"strings"
	"testing"
)

// stripSuffix removes the pipeline suffixes a content record's name carries.
func stripSuffix(name string, cfg Config) string {
	suf := activeSuffixes(cfg)
	// on tape: name + compression suffix + encryption suffix
	for i := len(suf) - 1; i >= 0; i-- {
		name = strings.TrimSuffix(name, suf[i])
	}
	return name
}

type tapeInfo struct {
	tape     []byte
	recs     []TapeRec
	names    map[int64]string // record offset -> decrypted entry name (suffix stripped)
	callEnds []int            // tape length after Initialize and after every call
	writes   []int64          // tape length after every single drive write
	liveIdx  []string         // copies of the LIVE index file (built by the calls themselves) at call boundaries with no open handle; last = final
	liveAt   []int            // call index of each copy
}

// produceTape runs the case's history fault-free and collects the tape.
func produceTape(x *SeqCtx) (*tapeInfo, *Violation) {
	c := x.Case
	ti := &tapeInfo{names: map[int64]string{}}
	sz := func() int {
		fi, err := os.Stat(x.W.Drive)
		if err != nil {
			return 0
		}
		return int(fi.Size())
	}
	ti.callEnds = append(ti.callEnds, sz())
	snap := func(i int) {
		if x.Case.Param("liveidx", 0) == 0 {
			return
		}
		p := x.W.NewIndexPath()
		if copyFile(x.W.Index, p) == nil {
			ti.liveIdx, ti.liveAt = append(ti.liveIdx, p), append(ti.liveAt, i)
		}
	}
	if v := runOps(x, func(i int, op Op, res Res) *Violation {
		ti.callEnds = append(ti.callEnds, sz())
		if len(x.Ex.H) == 0 && i < len(x.Case.Ops)-1 && isMutating(op.K) && res.Class == "ok" {
			snap(i)
		}
		return nil
	}); v != nil {
		return nil, v
	}
	x.Ex.CloseAll()
	ti.callEnds = append(ti.callEnds, sz())
	snap(len(x.Case.Ops))
	var err error
	ti.tape, err = os.ReadFile(x.W.Drive)
	if err != nil {
		return nil, &Violation{Prop: c.Prop, Oracle: "harness", Detail: err.Error()}
	}
	ti.recs, err = ScanTape(ti.tape)
	if err != nil {
		return nil, &Violation{Prop: c.Prop, Oracle: "tape-not-tar", Detail: err.Error()}
	}
	hs, err := QueryTape(x.St)
	if err != nil {
		return nil, &Violation{Prop: c.Prop, Oracle: "query-fails", Detail: "recovery.Query over the intact tape fails: " + err.Error()}
	}
	rs := int64(c.Cfg.RecordSize)
	for _, h := range hs {
		ti.names[(h.Record*rs+h.Block)*512] = cleanAbs(stripSuffix(h.Name, c.Cfg))
	}
	ti.writes = append([]int64(nil), x.W.Dev.WriteEnds...)
	return ti, nil
}

func sameNode(a, b Node) bool { return a == b }

func init() {
	// ------------------------------------------------------------ C06
	Register(&Check{
		ID: "C06", Level: "fault_enumeration", Tech: "deterministic simulation: crash-point enumeration over the recorded drive write stream (torn tails), rebuild of every surviving prefix, comparison with the clean-prefix state",
		Rule:      "per generated history the drive's write log is recorded; crash points = every boundary between two drive writes, every record/header/content boundary +-1 byte and sampled interior offsets (thorough: every byte of the last records); for each surviving prefix the index is rebuilt (recovery.Index, real decrypt/verify) in a fresh instance and its observed tree+contents compared with the rebuild of the tape cut back to the last complete record: only the torn record's own entry may differ, and reading it must fail or give its old content; an evaluation = one crash point; non-trivial = the cut lies strictly inside a record; distinct by (history, cut offset class)",
		QuickRuns: 400, QuickSecs: 70, ThoroughRuns: 2000, ThoroughSecs: 1500,
		Assumptions: []string{"crash model: the durable tape is a byte prefix of the bytes issued to the drive (append-only, never synced); the index is rebuilt from scratch", "the clean-prefix rebuild used as reference is tied to the live state by C01 at call boundaries"},
		Gen: func(r *rand.Rand, tier string, relax Relax) *Case {
			c := &Case{Cfg: GenConfig(r, 0.5), P: map[string]int64{"enumerate": 1}, S: map[string]string{}}
			ops, u := GenHistory(r, GenOpts{MaxOps: 8, Handles: r.Float64() < 0.3, RS: c.Cfg.RecordSize})
			if r.Float64() < 0.2 {
				// direct Operations.Archive calls: multi-member batches (one trailer for several records)
				// and empty batches (a call that writes no record)
				ops = insertArchives(r, ops, false)
			}
			c.Ops, c.S["style"] = ops, u.Style
			return c
		},
		Eval: evalC06,
	})

	// ------------------------------------------------------------ C07
	Register(&Check{
		ID: "C07", Level: "fault_enumeration", Tech: "deterministic simulation: duplicate-delivery of the log - replay of the whole tape into every prefix index (restart at each call boundary), twice",
		Rule:      "per generated history (moves, delete-then-recreate, renames onto used names) and for EVERY call boundary and every record boundary j: index I_j = rebuild of the tape prefix at j; the whole tape is then re-indexed into I_j without wiping, twice; the same is done with copies of the LIVE index file as the calls themselves built it (at the end and at earlier call boundaries); each pass must return nil and the observed tree+contents after pass 1, after pass 2 and of a from-scratch rebuild must be identical; an evaluation = one (history, j) or one (history, live copy); non-trivial = the prefix index differs from the final state; distinct by (history, j)",
		QuickRuns: 1500, QuickSecs: 60, ThoroughRuns: 15000, ThoroughSecs: 1500,
		Assumptions: []string{"prefix indexes are produced by rebuilding the tape cut at a call boundary, plus copies of the live index file (built by the calls themselves) taken at call boundaries with no open handle and at the end"},
		Gen: func(r *rand.Rand, tier string, relax Relax) *Case {
			c := &Case{Cfg: GenConfig(r, 0.6), P: map[string]int64{}, S: map[string]string{}}
			ops, u := GenHistory(r, GenOpts{MaxOps: 10, Handles: r.Float64() < 0.3, RS: c.Cfg.RecordSize, ValidBias: 0.85})
			if r.Float64() < 0.35 {
				// name-reuse templates: the records of one name describe DIFFERENT entries over time
				// (empty placeholder renamed away and the name reused with content, and the reverse;
				// a renamed directory whose name is created again; delete then recreate then chmod)
				n, m := "/zz"+u.Comps[0], "/zy"+u.Comps[len(u.Comps)-1]
				d1 := &Data{Len: 8 + r.IntN(900), Kind: "text", Tag: 0x7071}
				d2 := &Data{Len: 1 + r.IntN(900), Kind: "rand", Tag: 0x7072}
				var t []Op
				switch r.IntN(4) {
				case 0:
					t = []Op{{K: "create", P: n, H: 61}, {K: "h.close", H: 61}, {K: "rename", P: n, Q: m}, {K: "writefile", P: n, D: d1}, {K: "chmod", P: n, M: 0o644}}
				case 1:
					t = []Op{{K: "writefile", P: n, D: d1}, {K: "rename", P: n, Q: m}, {K: "create", P: n, H: 61}, {K: "h.close", H: 61}}
				case 2:
					t = []Op{{K: "mkdir", P: n, M: 0o755}, {K: "writefile", P: n + "/x", D: d1}, {K: "rename", P: n, Q: m}, {K: "mkdir", P: n, M: 0o700}, {K: "writefile", P: n + "/x", D: d2}}
				case 3:
					t = []Op{{K: "writefile", P: n, D: d1}, {K: "remove", P: n}, {K: "writefile", P: n, D: d2}, {K: "chmod", P: n, M: 0o600}, {K: "rename", P: n, Q: m}, {K: "create", P: n, H: 61}, {K: "h.close", H: 61}}
				}
				// spliced in at a position where no read stream of the history is open (a write call
				// while a positioned stream is open is open finding KF6, not C07's subject)
				var spots []int
				streams := 0
				for i := 0; i <= len(ops); i++ {
					if streams == 0 {
						spots = append(spots, i)
					}
					if i < len(ops) {
						switch ops[i].K {
						case "open":
							streams++
						case "h.close":
							if streams > 0 {
								streams--
							}
						}
					}
				}
				at := spots[r.IntN(len(spots))]
				ops = append(append(append([]Op{}, ops[:at]...), t...), ops[at:]...)
			}
			c.Ops, c.S["style"] = ops, u.Style
			c.P["liveidx"] = 1
			return c
		},
		Eval: evalC07,
	})
}

func evalC06(t *testing.T, c *Case, st *Stats, relax Relax) *Violation {
	return RunSeq(t, c, st, relax, seqOpts{}, func(x *SeqCtx) *Violation {
		ti, v := produceTape(x)
		if v != nil {
			return v
		}
		names := namesOf(c.Ops)
		tape := ti.tape
		// candidate cuts
		cutSet := map[int]bool{}
		add := func(n int64) {
			if n >= 0 && n <= int64(len(tape)) {
				cutSet[int(n)] = true
			}
		}
		if c.Param("enumerate", 1) == 0 {
			add(c.Param("cut", 0))
		} else {
			for _, w := range ti.writes {
				add(w)
			}
			for _, r := range ti.recs {
				for _, b := range []int64{r.Off, r.DataOff, r.DataOff + r.Size, r.DataOff + roundUp512(r.Size)} {
					for d := int64(-2); d <= 2; d++ {
						add(b + d)
					}
				}
				if r.Size > 4 {
					add(r.DataOff + r.Size/2)
					add(r.DataOff + 1)
				}
			}
			rr := rand.New(rand.NewPCG(c.Seed, 6))
			for i := 0; i < 30 && len(tape) > 0; i++ {
				add(int64(rr.IntN(len(tape))))
			}
			if c.Tier == "thorough" && len(ti.recs) > 0 {
				from := ti.recs[max(0, len(ti.recs)-3)].Off
				for b := from; b < int64(len(tape)) && b < from+6000; b++ {
					add(b)
				}
			}
		}
		var cuts []int
		for k := range cutSet {
			cuts = append(cuts, k)
		}
		sort.Ints(cuts)
		limit := 220
		if c.Tier == "thorough" {
			limit = 8000
		}
		if len(cuts) > limit {
			step := float64(len(cuts)) / float64(limit)
			var sel []int
			for i := 0; i < limit; i++ {
				sel = append(sel, cuts[int(float64(i)*step)])
			}
			cuts = sel
		}
		type refState struct {
			t     Tree
			probs []string
		}
		refCache := map[int]*refState{}
		getRef := func(end int) (*refState, *Violation) {
			if r, ok := refCache[end]; ok {
				return r, nil
			}
			d, err := x.W.PrefixDrive(tape, end)
			if err != nil {
				return nil, &Violation{Prop: c.Prop, Oracle: "harness", Detail: err.Error()}
			}
			defer os.Remove(d)
			tr, probs, ierr, err := RebuildObserve(x.W, d, names)
			if err != nil {
				return nil, &Violation{Prop: c.Prop, Oracle: "harness", Detail: err.Error()}
			}
			if ierr != nil {
				return nil, &Violation{Prop: c.Prop, Oracle: "clean-prefix-rebuild-fails", Detail: fmt.Sprintf("rebuilding the tape cut after a complete record (%d bytes) fails: %v", end, ierr)}
			}
			r := &refState{t: tr, probs: probs}
			refCache[end] = r
			return r, nil
		}
		for _, L := range cuts {
			// classify the cut
			cleanEnd := 0
			var torn *TapeRec
			for i := range ti.recs {
				r := &ti.recs[i]
				if r.DataOff+r.Size <= int64(L) {
					e := int(r.DataOff + roundUp512(r.Size))
					if e > len(tape) {
						e = len(tape)
					}
					cleanEnd = e
				} else if r.Off < int64(L) {
					torn = r
				}
			}
			inContent := torn != nil && int64(L) >= torn.DataOff && torn.Size > 0
			ref, v := getRef(cleanEnd)
			if v != nil {
				v.Step = L
				return v
			}
			d, err := x.W.PrefixDrive(tape, L)
			if err != nil {
				return &Violation{Prop: c.Prop, Oracle: "harness", Detail: err.Error()}
			}
			got, probs, ierr, err := RebuildObserve(x.W, d, names)
			os.Remove(d)
			if err != nil {
				return &Violation{Prop: c.Prop, Oracle: "harness", Detail: err.Error()}
			}
			st.Evals++
			if ierr != nil {
				st.Add("rebuild_returned_error", 1)
			}
			mk := func(oracle, detail string) *Violation {
				c.P["enumerate"], c.P["cut"] = 0, int64(L)
				return &Violation{Prop: c.Prop, Oracle: oracle, Step: L, Detail: fmt.Sprintf("tape cut at byte %d of %d (last complete record ends at %d, indexer returned %v): %s", L, len(tape), cleanEnd, ierr, detail)}
			}
			tornName := ""
			if inContent {
				tornName = ti.names[torn.Off]
			}
			for _, diff := range diffTornTrees(ref.t, got, tornName) {
				return mk("lost-or-altered-beyond-torn-record", diff)
			}
			if tornName != "" {
				// the torn record may be reflected in its entry's metadata; it never takes the entry
				// (its last complete version) away
				if r, ok := ref.t[tornName]; ok {
					if _, still := got[tornName]; !still {
						return mk("torn-entry-vanished", fmt.Sprintf("%q existed after the last complete record (%+v) and is gone after the rebuild of the torn tape", tornName, r))
					}
				}
				if g, ok := got[tornName]; ok && g.Kind == "file" && g.Err == "" {
					if r, ok := ref.t[tornName]; !ok || r.Sum != g.Sum {
						return mk("torn-entry-returns-wrong-data", fmt.Sprintf("%q reads %s without error (before the torn record it was %+v)", tornName, g.Sum, ref.t[tornName]))
					}
				}
			}
			if len(probs) != len(ref.probs) {
				return mk("walk-problems", fmt.Sprintf("torn=%v clean=%v", probs, ref.probs))
			}
			// the same rebuild through the filesystem's own Initialize over an empty index (what a
			// user does after a crash), for every fourth crash point that leaves the root record intact
			if len(ti.recs) > 0 && int64(L) >= ti.recs[0].DataOff+roundUp512(ti.recs[0].Size) && (L+int(c.Seed%4))%4 == 0 {
				d2, err := x.W.PrefixDrive(tape, L)
				if err != nil {
					return &Violation{Prop: c.Prop, Oracle: "harness", Detail: err.Error()}
				}
				st2, ierr2 := x.W.Open(OpenOpts{Drive: d2, Index: x.W.NewIndexPath()})
				var t2 Tree
				if st2 != nil {
					if ierr2 == nil {
						t2, _ = Observe(st2.FS, "/", ObsOpts{Extra: names})
					}
					st2.Close()
				}
				after, _ := os.ReadFile(d2)
				os.Remove(d2)
				st.Add("rebuilds_through_initialize", 1)
				if ierr2 != nil {
					return mk("initialize-fails-on-torn-tape", ierr2.Error())
				}
				if !bytes.Equal(after, tape[:L]) {
					return mk("initialize-modifies-torn-tape", fmt.Sprintf("the surviving tape had %d bytes, after the rebuild through Initialize %d", L, len(after)))
				}
				for _, diff := range diffTornTrees(got, t2, "") {
					return mk("initialize-differs-from-indexer-rebuild", diff)
				}
			}
			if torn != nil && int64(L) > torn.Off {
				cls := "header"
				if inContent {
					cls = "content"
				}
				st.Nontrivial(fmt.Sprintf("%s|%s|%d|%s", opKinds(c.Ops), c.Cfg, torn.Off, cls))
				st.Add("cuts_inside_"+cls, 1)
			} else {
				st.Add("cuts_at_boundary", 1)
			}
		}
		st.Evals--
		st.Sample(fmt.Sprintf("cfg=%s tape=%dB records=%d cuts=%d ops:\n%s", c.Cfg, len(tape), len(ti.recs), len(cuts), opsString(c.Ops)))
		return nil
	})
}

// diffTornTrees compares everything except the torn entry.
func diffTornTrees(ref, got Tree, torn string) []string {
	r2, g2 := Tree{}, Tree{}
	for k, v := range ref {
		if k != torn {
			r2[k] = v
		}
	}
	for k, v := range got {
		if k != torn {
			g2[k] = v
		}
	}
	return DiffTrees("clean-prefix", "torn", r2, g2, nil)
}

func evalC07(t *testing.T, c *Case, st *Stats, relax Relax) *Violation {
	return RunSeq(t, c, st, relax, seqOpts{}, func(x *SeqCtx) *Violation {
		ti, v := produceTape(x)
		if v != nil {
			return v
		}
		names := namesOf(c.Ops)
		full, err := x.W.PrefixDrive(ti.tape, len(ti.tape))
		if err != nil {
			return &Violation{Prop: c.Prop, Oracle: "harness", Detail: err.Error()}
		}
		scratch, sprobs, ierr, err := RebuildObserve(x.W, full, names)
		if err != nil {
			return &Violation{Prop: c.Prop, Oracle: "harness", Detail: err.Error()}
		}
		if ierr != nil {
			return &Violation{Prop: c.Prop, Oracle: "scratch-rebuild-fails", Detail: ierr.Error()}
		}
		ends := map[int]bool{}
		var js []int
		for _, e := range ti.callEnds {
			if !ends[e] {
				ends[e] = true
				js = append(js, e)
			}
		}
		// also every record boundary inside a call's archive (an index that reflects
		// only the first records of a multi-record call, e.g. of a recursive remove)
		for _, r := range ti.recs {
			e := int(r.DataOff + roundUp512(r.Size))
			if e <= len(ti.tape) && !ends[e] {
				ends[e] = true
				js = append(js, e)
				st.Add("prefixes_inside_a_call", 1)
			}
		}
		sort.Ints(js)
		if only := c.Param("j", -1); only >= 0 {
			js = []int{int(only)}
		}
		for _, end := range js {
			mk := func(oracle, detail string) *Violation {
				c.P["j"] = int64(end)
				return &Violation{Prop: c.Prop, Oracle: oracle, Step: end, Detail: fmt.Sprintf("index reflecting the first %d of %d tape bytes: %s", end, len(ti.tape), detail)}
			}
			// I_j: rebuild of the prefix
			pd, err := x.W.PrefixDrive(ti.tape, end)
			if err != nil {
				return &Violation{Prop: c.Prop, Oracle: "harness", Detail: err.Error()}
			}
			idx := x.W.NewIndexPath()
			ps, err := x.W.Open(OpenOpts{Drive: pd, Index: idx, NoInit: true})
			if err != nil {
				return &Violation{Prop: c.Prop, Oracle: "harness", Detail: err.Error()}
			}
			perr := Reindex(ps, true, nil)
			pt, _ := Observe(ps.FS, "/", ObsOpts{Extra: names})
			ps.Close()
			os.Remove(pd)
			if perr != nil {
				return mk("prefix-rebuild-fails", perr.Error())
			}
			// replay the whole tape into it, twice
			fs, err := x.W.Open(OpenOpts{Drive: full, Index: idx, NoInit: true})
			if err != nil {
				return &Violation{Prop: c.Prop, Oracle: "harness", Detail: err.Error()}
			}
			var obs [2]Tree
			var probs [2][]string
			for pass := 0; pass < 2; pass++ {
				if e := Reindex(fs, false, nil); e != nil {
					fs.Close()
					return mk(fmt.Sprintf("replay-pass-%d-fails", pass+1), e.Error())
				}
				obs[pass], probs[pass] = Observe(fs.FS, "/", ObsOpts{Extra: names})
			}
			fs.Close()
			st.Evals++
			if d := DiffTrees("scratch-rebuild", "replay-pass-1", scratch, obs[0], nil); len(d) > 0 {
				return mk("replay-differs-from-scratch-rebuild", strings.Join(d, "; "))
			}
			if d := DiffTrees("replay-pass-1", "replay-pass-2", obs[0], obs[1], nil); len(d) > 0 {
				return mk("second-replay-changes-state", strings.Join(d, "; "))
			}
			if len(probs[0]) != len(sprobs) || len(probs[1]) != len(sprobs) {
				return mk("walk-problems", fmt.Sprintf("scratch=%v pass1=%v pass2=%v", sprobs, probs[0], probs[1]))
			}
			if len(DiffTrees("a", "b", pt, scratch, nil)) > 0 {
				st.Nontrivial(fmt.Sprintf("%s|%s|%d", opKinds(c.Ops), c.Cfg, end))
			}
		}
		// the index the calls themselves built (j=|h| "is the live index itself"), and the live index as
		// it stood at earlier call boundaries: the whole tape replayed into a copy of it, twice
		for k, lp := range ti.liveIdx {
			at := ti.liveAt[k]
			if only := c.Param("live", -1); only >= 0 && int(only) != at {
				os.Remove(lp)
				continue
			}
			if c.Param("j", -1) >= 0 {
				os.Remove(lp)
				continue
			}
			mk := func(oracle, detail string) *Violation {
				c.P["live"] = int64(at)
				return &Violation{Prop: c.Prop, Oracle: oracle, Step: at, Detail: fmt.Sprintf("live index as built by the calls up to call %d of %d: %s", at, len(c.Ops), detail)}
			}
			fs, err := x.W.Open(OpenOpts{Drive: full, Index: lp, NoInit: true})
			if err != nil {
				return &Violation{Prop: c.Prop, Oracle: "harness", Detail: err.Error()}
			}
			var obs [2]Tree
			var probs [2][]string
			for pass := 0; pass < 2; pass++ {
				if e := Reindex(fs, false, nil); e != nil {
					fs.Close()
					return mk(fmt.Sprintf("live-replay-pass-%d-fails", pass+1), e.Error())
				}
				obs[pass], probs[pass] = Observe(fs.FS, "/", ObsOpts{Extra: names})
			}
			fs.Close()
			os.Remove(lp)
			st.Evals++
			st.Add("live_index_replays", 1)
			if d := DiffTrees("scratch-rebuild", "replay-pass-1", scratch, obs[0], nil); len(d) > 0 {
				return mk("live-replay-differs-from-scratch-rebuild", strings.Join(d, "; "))
			}
			if d := DiffTrees("replay-pass-1", "replay-pass-2", obs[0], obs[1], nil); len(d) > 0 {
				return mk("live-second-replay-changes-state", strings.Join(d, "; "))
			}
			if len(probs[0]) != len(sprobs) || len(probs[1]) != len(sprobs) {
				return mk("live-walk-problems", fmt.Sprintf("scratch=%v pass1=%v pass2=%v", sprobs, probs[0], probs[1]))
			}
		}
		st.Evals--
		st.Sample(fmt.Sprintf("cfg=%s tape=%dB boundaries=%v ops:\n%s", c.Cfg, len(ti.tape), js, opsString(c.Ops)))
		return nil
	})
}
